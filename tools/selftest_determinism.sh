#!/bin/bash
# Determinism self-test (DESIGN 5.1): for every engine, N seeds are executed in
# fresh processes - twice with 16 workers and once with 1 worker - and the
# per-run hashes of the normalised traces must be identical.
set -u
N=${1:-200}
cd /verif
BIN=/verif/sim/target/release
fail=0
summary=""
run() { # bin mode prop
  local a b c
  a=$(VERIF_WORKERS=16 $BIN/$1 $2 --property $3 --trace-dump --runs $N 2>/dev/null)
  b=$(VERIF_WORKERS=16 $BIN/$1 $2 --property $3 --trace-dump --runs $N 2>/dev/null)
  c=$(VERIF_WORKERS=1 $BIN/$1 $2 --property $3 --trace-dump --runs $N 2>/dev/null)
  local n=$(echo "$a" | wc -l)
  if [ "$a" == "$b" ] && [ "$a" == "$c" ] && [ "$n" -ge "$N" ]; then
    echo "ok   $2 $3: $n runs x 3 processes (16,16,1 workers) identical"
    summary="$summary{\"engine\":\"$2\",\"property\":\"$3\",\"runs\":$n,\"processes\":3,\"identical\":true},"
  else
    echo "FAIL $2 $3: traces differ between processes"
    diff <(echo "$a") <(echo "$b") | head -5
    diff <(echo "$a") <(echo "$c") | head -5
    summary="$summary{\"engine\":\"$2\",\"property\":\"$3\",\"runs\":$n,\"processes\":3,\"identical\":false},"
    fail=1
  fi
}
run simcheck model C04
run simcheck model C14
run simcheck model C28
run simcheck crash C01
run simcheck crash C02
run simcheck fault C03
run simcheck corrupt C17
run simcheck sched C05
run simcheck sched C06
run e3http http C23
run e3http http C24
run e4idb idb C27
mkdir -p /verif/selftest
echo "{\"seeds_per_engine\":$N,\"results\":[${summary%,}]}" > /verif/selftest/determinism.json
exit $fail
