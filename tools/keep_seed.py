#!/usr/bin/env python3
"""keep_seed.py <seed-dir-name> <property> <src out dir> '<needs>' '<ran>' '<detected-by>'"""
import json, os, shutil, sys
name, prop, src, needs, ran, detected = sys.argv[1:7]
dst = os.path.join("/verif/seeded", name)
os.makedirs(dst, exist_ok=True)
shutil.copy(os.path.join(src, "patch.diff"), os.path.join(dst, "patch.diff"))
if os.path.isdir(os.path.join(src, "demo")):
    shutil.copytree(os.path.join(src, "demo"), os.path.join(dst, "demo"), dirs_exist_ok=True)
if os.path.exists(os.path.join(src, "notes.md")):
    shutil.copy(os.path.join(src, "notes.md"), os.path.join(dst, "notes.md"))
json.dump({"property": prop, "breaks": prop, "needs_to_manifest": needs, "confirmed_by_running": ran, "detected_by": detected,
           "origin": "independent sub-agent given only the property text and a scratch worktree"}, open(os.path.join(dst, "meta.json"), "w"), indent=1)
print("kept", dst)
