#!/usr/bin/env python3
"""Sensitivity catalogue: deliberate property-breaking changes to /repo (DESIGN 5.2).

  mutants.py gen                 write /verif/mutants/<name>.diff for every entry
  mutants.py run [name...]       apply each diff in a scratch worktree (outside /repo and
                                 /verif), run the expected property checks there, record
                                 detected / missed in /verif/mutants/results.json
  mutants.py tests [name...]     additionally run the repository's own test suite on the
                                 mutated worktree (must stay green)

Nothing here ever touches /repo's working tree.
"""
import json, os, subprocess, sys, time, shutil

HERE = os.path.dirname(os.path.abspath(__file__))
VERIF = os.path.dirname(HERE)
MUT = os.path.join(VERIF, "mutants")
SCRATCH = os.environ.get("VSCRATCH", "/tmp/vscratch")

CORE = "searchlite-core/src/"
# (name, expected properties, negative-control?, file, old, new, description)
M = []
def m(name, props, file, old, new, desc, negative=False, count=1):
    M.append(dict(name=name, props=props, file=file, old=old, new=new, desc=desc, negative=negative, count=count))

m("M01_atomic_write_no_fsync", ["C01"], CORE+"storage/mod.rs",
  "      file.write_all(data)?;\n      file.sync_all()?;\n    }\n    fs::rename(&tmp, path)?;",
  "      file.write_all(data)?;\n    }\n    fs::rename(&tmp, path)?;",
  "atomic_write: temp file not fsynced before the rename")
m("M02_atomic_write_no_dirsync", ["C01", "C02"], CORE+"storage/mod.rs",
  "    fs::rename(&tmp, path)?;\n    sync_dir(path)?;",
  "    fs::rename(&tmp, path)?;",
  "atomic_write: directory not fsynced after the rename")
m("M03_manifest_write_all", ["C01"], CORE+"index/manifest.rs",
  "    storage\n      .atomic_write(path, &data)",
  "    storage\n      .write_all(path, &data)",
  "manifest stored in place (write_all) instead of temp+rename")
m("M04_docstore_no_fsync", ["C01"], CORE+"index/segment.rs",
  "    drop(doc_writer);\n    docstore_file.sync_all()?;",
  "    drop(doc_writer);",
  "segment docstore file not fsynced")
m("M05_postings_no_fsync", ["C01"], CORE+"index/segment.rs",
  "    postings_file.sync_all()?;\n", "",
  "segment postings file not fsynced")
m("M06_terms_no_fsync", ["C01"], CORE+"index/terms.rs",
  "  file.write_all(&crc.to_le_bytes())?;\n  file.sync_all()?;",
  "  file.write_all(&crc.to_le_bytes())?;",
  "segment terms file not fsynced")
m("M07_fast_no_fsync", ["C01"], CORE+"index/fastfields.rs",
  "    drop(writer);\n    handle.sync_all()?;\n    Ok(())\n  }\n}\n\n#[derive(Debug)]\nenum Column",
  "    drop(writer);\n    Ok(())\n  }\n}\n\n#[derive(Debug)]\nenum Column",
  "segment fast-field file not fsynced")
m("M08_meta_no_fsync", ["C01"], CORE+"index/segment.rs",
  "  drop(writer);\n  handle.sync_all()?;\n  Ok(())\n}\n\nfn compute_avg_lengths",
  "  drop(writer);\n  Ok(())\n}\n\nfn compute_avg_lengths",
  "segment meta file not fsynced")
m("M09_compact_cleanup_before_store", ["C01", "C03"], CORE+"index/mod.rs",
  "    manifest_guard.store(\n      inner.storage.as_ref(),\n      &Manifest::manifest_path(&inner.path),\n    )?;\n    drop(manifest_guard);\n    cleanup_segments(inner.storage.as_ref(), &old_segments)?;",
  "    cleanup_segments(inner.storage.as_ref(), &old_segments)?;\n    manifest_guard.store(\n      inner.storage.as_ref(),\n      &Manifest::manifest_path(&inner.path),\n    )?;\n    drop(manifest_guard);",
  "compaction deletes the old segments before the merged manifest is stored")
m("M10_commit_no_first_wal_sync", ["C02"], CORE+"api/writer.rs",
  "      return Ok(());\n    }\n    self.wal.sync()?;\n    let manifest_snapshot",
  "      return Ok(());\n    }\n    let manifest_snapshot",
  "commit does not sync the log before publishing")
m("M11_drop_no_wal_sync", ["C02"], CORE+"api/writer.rs",
  "    if !self.pending_ops.is_empty() {\n      if let Err(e) = self.wal.sync() {",
  "    if false {\n      if let Err(e) = self.wal.sync() {",
  "dropping a writer does not sync the log")
m("M12_wal_truncate_no_sync", ["C02"], CORE+"index/wal.rs",
  "  pub fn truncate(&mut self) -> Result<()> {\n    self.file.set_len(0)?;\n    self.file.seek(SeekFrom::Start(0))?;\n    self.file.sync_all()\n  }",
  "  pub fn truncate(&mut self) -> Result<()> {\n    self.file.set_len(0)?;\n    self.file.seek(SeekFrom::Start(0))?;\n    Ok(())\n  }",
  "log truncation (rollback / after commit) is not synced")
m("M13_rollback_keeps_wal", ["C04", "C02"], CORE+"api/writer.rs",
  "    self.pending_ops.clear();\n    self.wal.truncate()?;\n    Ok(())\n  }\n\n  /// Marks the current end",
  "    self.pending_ops.clear();\n    Ok(())\n  }\n\n  /// Marks the current end",
  "rollback does not truncate the log")
m("M14_commit_error_no_manifest_restore", ["C03"], CORE+"api/writer.rs",
  "      let manifest_restored = if let Err(manifest_err) =\n        manifest_snapshot.store(self.inner.storage.as_ref(), &manifest_path)\n      {",
  "      let manifest_restored = if let Err(manifest_err) = Ok::<(), anyhow::Error>(())\n      {",
  "commit error path does not restore the previous manifest")
m("M15_publish_before_store", ["C03"], CORE+"api/writer.rs",
  "    let wal_len = self.wal.len()?;\n    if let Err(e) = (|| -> Result<()> {",
  "    let wal_len = self.wal.len()?;\n    {\n      let mut manifest_guard = self.inner.manifest.write();\n      *manifest_guard = new_manifest.clone();\n    }\n    if let Err(e) = (|| -> Result<()> {",
  "in-memory manifest published before it is stored")
m("M16_never_reload_live_docs", ["C04", "C05"], CORE+"api/writer.rs",
  "    let mut live_docs = if manifest_generation == self.live_generation {",
  "    let mut live_docs = if manifest_generation == self.live_generation || true {",
  "commit never reloads the live-document map (stale after another handle's commit)")
m("M17_delete_keeps_pending_new", ["C04"], CORE+"api/writer.rs",
  "        PendingOp::Delete { doc_id } => {\n          pending_new.remove(doc_id);",
  "        PendingOp::Delete { doc_id } => {",
  "delete does not cancel an add of the same id queued earlier in the batch")
m("M18_rollback_keeps_pending", ["C04"], CORE+"api/writer.rs",
  "    let _guard = self.inner.writer_lock.lock();\n    self.pending_ops.clear();\n    self.wal.truncate()?;",
  "    let _guard = self.inner.writer_lock.lock();\n    self.wal.truncate()?;",
  "rollback keeps the in-memory queue")
m("M19_commit_without_lock", ["C05"], CORE+"api/writer.rs",
  "    let inner = self.inner.clone();\n    let _guard = inner.writer_lock.lock();\n    if self.pending_ops.is_empty() {",
  "    let inner = self.inner.clone();\n    if self.pending_ops.is_empty() {",
  "commit does not take the writer lock")
m("M20_compact_without_lock", ["C05"], CORE+"index/mod.rs",
  "    let _writer_guard = self.inner.writer_lock.lock();\n    let reader = self.reader()?;",
  "    let reader = self.reader()?;",
  "compaction does not take the writer lock")
m("M21_reader_open_unlocked", ["C06"], CORE+"api/reader.rs",
  "    let manifest_guard = inner.manifest.read();\n    let manifest = manifest_guard.clone();",
  "    let manifest_guard = ();\n    let manifest = inner.manifest.read().clone();",
  "reader open releases the manifest lock before opening segment files")
m("M22_compact_always_safe", ["C14"], CORE+"index/mod.rs",
  "    if (field.indexed || field.fast) && !field.stored {",
  "    if false && (field.indexed || field.fast) && !field.stored {",
  "compaction no longer refuses schemas with indexed non-stored fields")
m("M23_compact_keeps_deleted", ["C14", "C04"], CORE+"index/mod.rs",
  "        if seg.is_deleted(doc_id) {\n          return None;\n        }",
  "        if false && seg.is_deleted(doc_id) {\n          return None;\n        }",
  "compaction re-ingests deleted documents")
m("M24_checksum_skips_fast", ["C17"], CORE+"index/segment.rs",
  "  verify(\n    \"fast fields\",\n    Path::new(&meta.paths.fast),\n    meta.checksums.get(\"fast\"),\n    None,\n  )?;",
  "",
  "segment open does not verify the fast-field file checksum")
m("M25_wal_ignores_checksum", ["C17"], CORE+"index/wal.rs",
  "      if checksum.to_le_bytes() != checksum_bytes {\n        break;\n      }",
  "      if false && checksum.to_le_bytes() != checksum_bytes {\n        break;\n      }",
  "log replay ignores record checksum mismatches")
m("M26_http_error_shape", ["C24"], "searchlite-http/src/lib.rs",
  "    return HttpError::from_anyhow(\n      \"timeout\",\n      StatusCode::GATEWAY_TIMEOUT,\n      anyhow::anyhow!(\"request timed out\"),\n    )\n    .into_response();",
  "    return (StatusCode::GATEWAY_TIMEOUT, \"request timed out\").into_response();",
  "timeouts answered with a plain-text body instead of the structured error")
m("M27_http_rollback_on_bad_doc", ["C23"], "searchlite-http/src/lib.rs",
  "        if let Err(rollback_err) = writer.rollback_to(&mark) {",
  "        if let Err(rollback_err) = writer.rollback() {",
  "write handlers roll the whole log back (not to their savepoint) when a document cannot be queued", count=2)
m("M28_wasm_commit_no_flush", ["C27"], "searchlite-wasm/src/wasm.rs",
  "    writer.commit().map_err(to_js_error)?;\n    self.storage.flush().await.map_err(to_js_error)?;\n    Ok(())",
  "    writer.commit().map_err(to_js_error)?;\n    Ok(())",
  "wasm commit() resolves without awaiting persistence")
m("M29_wasm_sync_all_no_schedule", ["C27"], "searchlite-wasm/src/wasm.rs",
  "  fn sync_all(&mut self) -> Result<()> {\n    if self.dirty {\n      let data = self.data.read().clone();\n      self.pending.schedule(self.path.clone(), data);\n      self.dirty = false;\n    }\n    Ok(())\n  }",
  "  fn sync_all(&mut self) -> Result<()> {\n    if self.dirty {\n      self.dirty = false;\n    }\n    Ok(())\n  }",
  "JsFile::sync_all clears the dirty flag without scheduling a persist")
m("M30_wasm_coalesce_keeps_old", ["C27"], "searchlite-wasm/src/wasm.rs",
  "    entry.pending = Some(data);\n    entry.waiters.push(tx);\n    if entry.inflight {\n      return;\n    }",
  "    entry.waiters.push(tx);\n    if entry.inflight {\n      return;\n    }\n    entry.pending = Some(data);",
  "a persist scheduled while one is in flight drops the newer snapshot")
m("M31_manifest_paths_verbatim", ["C28"], CORE+"index/manifest.rs",
  "      for seg in manifest.segments.iter_mut() {\n        seg.paths.rebase(root);\n      }",
  "      for seg in manifest.segments.iter_mut() {\n        let _ = (&seg, root);\n      }",
  "segment paths taken from the manifest verbatim (absolute paths of the original directory)")
m("M32_wal_open_no_trim", ["C02"], CORE+"index/wal.rs",
  "    if valid_len < data.len() {\n      file.set_len(valid_len as u64)?;",
  "    if false && valid_len < data.len() {\n      file.set_len(valid_len as u64)?;",
  "Wal::open does not trim a torn tail")
m("M33_commit_truncate_error_fatal", ["C03"], CORE+"api/writer.rs",
  "    if let Err(e) = self.wal.truncate() {\n      log::warn!(\"failed to truncate WAL after commit: {e}\");\n    }",
  "    self.wal.truncate()?;",
  "commit reports an error when only the final log truncation failed")
m("M34_manifest_checksum_unverified", ["C17"], CORE+"index/manifest.rs",
  "    verify_manifest_checksum(&data).with_context(|| format!(\"validating manifest at {:?}\", path))?;\n",
  "",
  "manifest checksum not verified on load")
m("M35_http_no_413_streamed", ["C24"], "searchlite-http/src/lib.rs",
  "    if err.status() == StatusCode::PAYLOAD_TOO_LARGE {\n      return HttpError::body_too_large(err.to_string());\n    }",
  "",
  "streamed oversize JSON bodies answered 400 instead of 413")
m("M36_commit_marker_before_manifest", ["C02"], CORE+"api/writer.rs",
  "      new_manifest.store(self.inner.storage.as_ref(), &manifest_path)?;\n      self.wal.append_commit()?;\n      self.wal.sync()?;",
  "      self.wal.append_commit()?;\n      self.wal.sync()?;\n      new_manifest.store(self.inner.storage.as_ref(), &manifest_path)?;",
  "commit marker made durable before the manifest is stored")
m("M37_add_no_lock", ["C05"], CORE+"api/writer.rs",
  "  pub fn add_document(&mut self, doc: &Document) -> Result<u32> {\n    let _guard = self.inner.writer_lock.lock();",
  "  pub fn add_document(&mut self, doc: &Document) -> Result<u32> {",
  "add_document does not take the writer lock (negative control for serializability: appends are atomic per primitive)", negative=True)
# negative controls: must NOT raise an alarm
m("M38_rollback_to_grows_log", ["C04", "C02"], CORE+"api/writer.rs",
  "    if mark.wal_len < self.wal.len()? {\n      self.wal.truncate_to(mark.wal_len)?;\n    }",
  "    self.wal.truncate_to(mark.wal_len)?;",
  "rollback_to truncates to the marked length even when the log is shorter (zero-extends it)")
m("M39_top_hits_capacity_from_request", ["C24"], CORE+"query/aggs/mod.rs",
  "  let cap = limit.min(total_hits).saturating_add(1);",
  "  let cap = limit.min(total_hits.max(target.size.max(1))).saturating_add(1);",
  "merge_top_hits reserves heap capacity from the request's size (allocation abort)")
m("M40_rollback_to_keeps_queue", ["C04", "C02"], CORE+"api/writer.rs",
  "    self.pending_ops.truncate(mark.ops);\n",
  "",
  "rollback_to cuts the log but keeps the handle's in-memory queue")
m("N01_no_commit_marker", ["C01", "C02", "C04"], CORE+"api/writer.rs",
  "      self.wal.append_commit()?;\n      self.wal.sync()?;\n      Ok(())",
  "      self.wal.sync()?;\n      Ok(())",
  "no commit marker is written (re-applied batch is idempotent)", negative=True)
m("N02_commit_error_no_wal_truncate_to", ["C03"], CORE+"api/writer.rs",
  "      if let Err(truncate_err) = self.wal.truncate_to(wal_len) {",
  "      if let Err(truncate_err) = Ok::<(), anyhow::Error>(()).and_then(|_| { let _ = wal_len; Ok::<(), anyhow::Error>(()) }) {",
  "commit error path does not cut the log back (the handle retries from memory)", negative=True)

MODE = {"C01": "crash", "C02": "crash", "C03": "fault", "C04": "model", "C14": "model", "C28": "model",
        "C17": "corrupt", "C05": "sched", "C06": "sched", "C23": "http", "C24": "http", "C27": "idb"}

def sh(cmd, **kw):
    return subprocess.run(cmd, shell=True, capture_output=True, text=True, **kw)

def gen():
    os.makedirs(MUT, exist_ok=True)
    wt = os.path.join(SCRATCH, "mutgen")
    sh(f"git -C /repo worktree remove --force {wt}/repo; rm -rf {wt}; git -C /repo worktree prune")
    os.makedirs(wt, exist_ok=True)
    r = sh(f"git -C /repo worktree add --detach -f {wt}/repo HEAD")
    assert r.returncode == 0, r.stderr
    index = []
    for e in M:
        path = os.path.join(wt, "repo", e["file"])
        s = open(path).read()
        if s.count(e["old"]) != e.get("count", 1):
            print(f"!! {e['name']}: anchor found {s.count(e['old'])} times in {e['file']}")
            continue
        open(path, "w").write(s.replace(e["old"], e["new"]))
        d = sh(f"git -C {wt}/repo diff").stdout
        open(os.path.join(MUT, e["name"] + ".diff"), "w").write(d)
        sh(f"git -C {wt}/repo checkout -- .")
        index.append({k: e[k] for k in ("name", "props", "desc", "negative", "file")})
    json.dump(index, open(os.path.join(MUT, "index.json"), "w"), indent=1)
    sh(f"git -C /repo worktree remove --force {wt}/repo; rm -rf {wt}; git -C /repo worktree prune")
    print(f"{len(index)} mutants written to {MUT}")

def run(names, with_tests=False, budget=None):
    index = json.load(open(os.path.join(MUT, "index.json")))
    if names:
        index = [e for e in index if any(e["name"].startswith(n) for n in names)]
    res_path = os.path.join(MUT, "results.json")
    results = json.load(open(res_path)) if os.path.exists(res_path) else {}
    name = "mutrun"
    S = os.path.join(SCRATCH, name)
    sh(f"{HERE}/scratch.sh rm {name}")
    r = sh(f"{HERE}/scratch.sh new {name}")
    assert r.returncode == 0, r.stdout + r.stderr
    try:
        for e in index:
            diff = os.path.join(MUT, e["name"] + ".diff")
            a = sh(f"git -C {S}/repo apply {diff}")
            if a.returncode != 0:
                print(f"{e['name']}: patch does not apply: {a.stderr.strip()}")
                results[e["name"]] = {"error": "patch does not apply"}
                continue
            entry = {"desc": e["desc"], "negative": e["negative"], "checks": {}}
            if with_tests:
                t0 = time.time()
                t = sh(f"cd {S}/repo && CARGO_TARGET_DIR={S}/repo-target cargo test --workspace --no-fail-fast --offline 2>&1 | grep -E '^test result|FAILED|panicked' | head -60")
                fails = [l for l in t.stdout.splitlines() if "FAILED" in l or " failed" in l and not "0 failed" in l]
                passed = sum(int(l.split()[3]) for l in t.stdout.splitlines() if l.startswith("test result"))
                entry["tests"] = {"passed": passed, "failures": fails[:5], "wall_s": round(time.time() - t0, 1)}
                print(f"{e['name']}: tests passed={passed} failures={len(fails)}")
            for p in e["props"]:
                t0 = time.time()
                extra = f"--budget {budget}" if budget else ""
                c = sh(f"{HERE}/scratch.sh run {name} {MODE[p]} --property {p} --tier quick {extra}")
                out = c.stdout + c.stderr
                vio = [l for l in out.splitlines() if l.startswith("VIOLATION")]
                first = next((l for l in out.splitlines() if l.startswith("violation")), "")
                detail = ""
                lines = out.splitlines()
                for i, l in enumerate(lines):
                    if l.startswith("violation") and i + 1 < len(lines):
                        detail = lines[i + 1].strip()[:300]
                        break
                entry["checks"][p] = {"exit": c.returncode, "violations": len(vio), "first": first, "detail": detail, "wall_s": round(time.time() - t0, 1)}
                verdict = "DETECTED" if c.returncode == 1 else ("clean" if c.returncode == 0 else f"HARNESS-ERROR({c.returncode})")
                print(f"{e['name']} [{p}] -> {verdict} in {entry['checks'][p]['wall_s']}s  {first}")
                if c.returncode not in (0, 1):
                    print(out[-1500:])
            results[e["name"]] = entry
            sh(f"git -C {S}/repo checkout -- .")
            json.dump(results, open(res_path, "w"), indent=1)
    finally:
        sh(f"{HERE}/scratch.sh rm {name}; rm -rf {S}")

if __name__ == "__main__":
    cmd = sys.argv[1] if len(sys.argv) > 1 else ""
    if cmd == "gen":
        gen()
    elif cmd == "run":
        run(sys.argv[2:])
    elif cmd == "tests":
        run(sys.argv[2:], with_tests=True)
    else:
        print(__doc__)
