#!/bin/bash
# Thorough tier of every property with a reduced wall-clock budget per pass
# (usage: thorough_short.sh <seconds>); same output format as thorough_all.sh.
cd "$(dirname "$0")/.."
export VERIF_ROOT="$PWD"
B=${1:-450}
for spec in "model C04" "model C14" "model C28" "crash C01" "crash C02" "fault C03" "corrupt C17" "sched C05" "sched C06" "http C23" "http C24" "idb C27"; do
  set -- $spec
  echo "=== $2 ($1) thorough, budget $B s: $(date +%T)"
  ./check $1 --property $2 --tier thorough --budget $B 2>&1 | grep -E "^violation|^  |VIOLATION|KNOWN|runs in|harness|note:" | cut -c1-600
done
echo "=== done $(date +%T)"
