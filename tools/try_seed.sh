#!/bin/bash
# try_seed.sh <name> <patch.diff> "<mode> <Cxx>" ["<mode> <Cxx>" ...]
# Applies the patch in a scratch worktree (outside /repo and /verif), builds a copy of the
# simulator against it and runs the quick tier of the given checks. Prints one line per check.
# Keeps nothing: the scratch copy is removed at the end.
set -u
name="$1"; patch="$2"; shift 2
T=/verif/tools
export VSCRATCH=${VSCRATCH:-/tmp/vscratch}
$T/scratch.sh rm "$name" >/dev/null 2>&1
$T/scratch.sh new "$name" "$patch" >/dev/null || { echo "$name: scratch failed"; exit 2; }
for spec in "$@"; do
  set -- $spec
  mode=$1; prop=$2; tier=${3:-quick}
  s=$(date +%s)
  out=$($T/scratch.sh run "$name" $mode --property $prop --tier $tier 2>&1)
  rc=$?
  cls=$(echo "$out" | grep -oE "class=[a-z0-9_-]+" | sort | uniq -c | sort -rn | head -3 | awk '{printf "%s x%s ", $2, $1}')
  echo "$name $prop($mode,$tier) rc=$rc $(( $(date +%s) - s ))s viol=$(echo "$out" | grep -c '^VIOLATION') $cls"
  echo "$out" | grep -E "^violation|^VIOLATION" | head -3 | cut -c1-400
  mkdir -p /tmp/tryseed; echo "$out" > /tmp/tryseed/$name.$prop.log
done
$T/scratch.sh rm "$name"
