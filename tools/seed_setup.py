#!/usr/bin/env python3
"""seed_setup.py <wave-name> <property-id> [extra-text-file]
Creates /tmp/seed<wave>/<id>/{repo (git worktree of /repo HEAD with a private copy of the
pre-built target dir), out} and writes prompt.txt from tools/seed_prompt_template.txt with the
property's full text. Nothing from /verif except the property text goes into the prompt."""
import json, os, subprocess, sys
wave, pid = sys.argv[1], sys.argv[2]
extra = open(sys.argv[3]).read() if len(sys.argv) > 3 else ""
d = f"/tmp/seed{wave}/{pid}"
os.makedirs(d + "/out", exist_ok=True)
if not os.path.isdir(d + "/repo"):
    subprocess.check_call(["git", "-C", "/repo", "worktree", "add", "--detach", "-f", d + "/repo", "HEAD"], stdout=subprocess.DEVNULL, stderr=subprocess.DEVNULL)
    subprocess.check_call(["cp", "-a", "/repo/target", d + "/repo/target"])
prop = None
for l in open("/verif/properties.jsonl"):
    p = json.loads(l)
    if p["id"] == pid:
        prop = p
text = f"{prop['title']}\n\n{prop['statement']}\n\nQuantified over: {prop['quantifier']['text']}\n\nWhy the existing tests cannot settle it: {prop['why_tests_cant']}\n\nAnchors (files): {', '.join(prop['anchors']['files'])}\nMechanisms:\n" + "\n".join(f"  - {m['name']} ({m['where']})" for m in prop['anchors']['mechanism'])
t = open("/verif/tools/seed_prompt_template.txt").read()
t = t.replace("@DIR@", d).replace("@PROPERTY@", text).replace("@EXTRA@", extra)
open(d + "/prompt.txt", "w").write(t)
print(d)
