#!/bin/bash
# Quick tier of every property under other base seeds (false-alarm hunt on the unchanged tree).
# usage: seeds_sweep.sh <seed> [<seed> ...]
cd "$(dirname "$0")/.."
export VERIF_ROOT="$PWD"
for s in "$@"; do
  for spec in "model C04" "model C14" "model C28" "crash C01" "crash C02" "fault C03" "corrupt C17" "sched C05" "sched C06" "http C23" "http C24" "idb C27"; do
    set -- $spec
    out=$(VERIF_SEED=$s ./check $1 --property $2 --tier quick --seed $s 2>&1)
    rc=$?
    echo "seed=$s $2 rc=$rc $(echo "$out" | grep -E 'runs in' | tr '\n' ' ' | cut -c1-200)"
    if [ $rc -ne 0 ]; then echo "$out" | grep -E "^violation|^  |VIOLATION|harness" | cut -c1-1500 | head -12; fi
  done
done
echo "=== sweep done"
