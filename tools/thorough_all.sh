#!/bin/bash
# Runs every property's thorough command one after the other (from the current directory's
# checkout) and prints one summary line per property.
cd "$(dirname "$0")/.."
export VERIF_ROOT="$PWD"
for spec in "model C04" "model C14" "model C28" "crash C01" "crash C02" "fault C03" "corrupt C17" "sched C05" "sched C06" "http C23" "http C24" "idb C27"; do
  set -- $spec
  echo "=== $2 ($1) thorough: $(date +%T)"
  ./check $1 --property $2 --tier thorough 2>&1 | grep -E "^violation|^  |VIOLATION|KNOWN|runs in|harness|note:" | cut -c1-600
done
echo "=== done $(date +%T)"
