#!/bin/bash
# thorough_subset.sh <seconds> "<mode> <Cxx>" ...   (reduced thorough pass of selected properties)
cd "$(dirname "$0")/.."
export VERIF_ROOT="$PWD"
B=$1; shift
for spec in "$@"; do
  set -- $spec
  echo "=== $2 ($1) thorough, budget $B s: $(date +%T)"
  ./check $1 --property $2 --tier thorough --budget $B 2>&1 | grep -E "^violation|^  |VIOLATION|KNOWN|runs in|harness|note:" | cut -c1-600
done
echo "=== done $(date +%T)"
