#!/bin/bash
# Re-confirms every kept / candidate seeded change in a private scratch worktree:
# demonstration passes without the change, fails with it, existing suite passes with it.
# usage: confirm_all.sh [<dir with seed2 outputs>]
cd /verif || exit 2
S2=${1:-/tmp/seed2out}
run() { # name dir demo crate
  echo "##### $1"
  ./tools/confirm_seed.sh "$2/patch.diff" "$2/demo/$3.rs" "$4/tests/$3.rs" -p "$4" --test "$3"
}
if [ -d "$S2" ]; then
  run s2_C01 $S2/C01/out c01_stale_manifest_tmp searchlite-core
  run s2_C02 $S2/C02/out c02_recovered_delete searchlite-core
  run s2_C03 $S2/C03/out c03_compact_manifest_fault searchlite-core
  run s2_C04 $S2/C04/out c04_stale_live_map_demo searchlite-core
  run s2_C05 $S2/C05/out c05_generation_reuse searchlite-core
  run s2_C06 $S2/C06/out c06_reader_snapshot_across_compaction searchlite-core
  run s2_C17 $S2/C17/out c17_manifest_corruption searchlite-core
  run s2_C24 $S2/C24/out http_body_transport_error searchlite-http
fi
K=/verif/seeded
run w1_C01 $K/C01_meta_fsync_before_bufwriter_flush c01_power_loss_after_commit searchlite-core
run w1_C02 $K/C02_commit_single_wal_fsync c02_crash_prefix_replay searchlite-core
run w1_C03 $K/C03_commit_takes_live_docs c03_commit_retry searchlite-core
run w1_C04 $K/C04_rollback_skips_when_wal_empty c04_rollback_demo searchlite-core
run w1_C05 $K/C05_compact_takes_writer_lock_late c05_compact_vs_commit searchlite-core
run w1_C06 $K/C06_reader_open_relocks_after_clone c06_reader_open_vs_compaction searchlite-core
run w1_C14 $K/C14_compact_safe_skips_nested_leaves c14_nested_compact_demo searchlite-core
run w1_C17 $K/C17_terms_whole_file_checksum_skipped c17_terms_header searchlite-core
run w1_C23 $K/C23_writer_rejects_ids_prevalidation_accepts c23_demo searchlite-http
run w1_C24 $K/C24_error_reason_truncated_mid_char c24_long_reason searchlite-http
run w1_C28 $K/C28_rebase_skipped_for_textual_prefix copied_index_prefix searchlite-core
echo "##### done"
