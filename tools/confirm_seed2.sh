#!/bin/bash
# confirm_seed2.sh <out-dir with patch.diff and demo/> <core|http|crate> [demo file name]
# In a scratch worktree outside /repo and /verif: the demonstration passes without the change,
# fails with it, and the pinned suite passes with it. Removes the worktree afterwards.
set -u
out="$1"; kind="$2"; demo="${3:-}"
S=/tmp/vscratch/confirm_$$
mkdir -p "$S"
git -C /repo worktree add --detach -f "$S/repo" HEAD >/dev/null 2>&1 || { echo "worktree failed"; exit 2; }
cp -a /repo/target "$S/repo/target" 2>/dev/null
W="$S/repo"
run_demo() {
  case "$kind" in
    core) ( cd "$W" && cp "$out/demo/$demo" searchlite-core/tests/ && cargo test -p searchlite-core --offline --test "${demo%.rs}" 2>&1 | grep -E "^test result|error(\[|:)|panicked" | head -5; rm -f "searchlite-core/tests/$demo" ) ;;
    http) ( cd "$W" && mkdir -p searchlite-http/tests && cp "$out/demo/$demo" searchlite-http/tests/ && cargo test -p searchlite-http --offline --test "${demo%.rs}" 2>&1 | grep -E "^test result|error(\[|:)|panicked" | head -5; rm -f "searchlite-http/tests/$demo" ) ;;
    corevec) ( cd "$W" && cp "$out/demo/$demo" searchlite-core/tests/ && cargo test -p searchlite-core --offline --features vectors --test "${demo%.rs}" 2>&1 | grep -E "^test result|error(\[|:)|panicked" | head -5; rm -f "searchlite-core/tests/$demo" ) ;;
    cratetest) ( mkdir -p "$S/out" && rsync -a --exclude target "$out/demo/" "$S/out/demo/" && cd "$S/out/demo" && cargo test --offline 2>&1 | grep -E "^test result|^error" | head -5 ) ;;
    crate) ( mkdir -p "$S/out" && rsync -a --exclude target "$out/demo/" "$S/out/demo/" && cd "$S/out/demo" && cargo run --offline 2>&1 | grep -E "RESULT|violation\(s\)|^error" | head -5 ) ;;
  esac
}
echo "== demo WITHOUT the change"; run_demo
git -C "$W" apply "$out/patch.diff" || echo "PATCH DOES NOT APPLY"
echo "== demo WITH the change"; run_demo
echo "== pinned suite WITH the change"
( cd "$W" && cargo test --workspace --no-fail-fast --offline 2>&1 | grep -E "^test result" | awk '{p+=$4; f+=$6} END {print "passed", p, "failed", f}' )
git -C /repo worktree remove --force "$W" >/dev/null 2>&1
rm -rf "$S"; git -C /repo worktree prune
