#!/bin/bash
# confirm_seed.sh <patch.diff> <demo-file> <dest-relative-path-in-worktree> <cargo test args...>
# In a scratch worktree (outside /repo and /verif): (1) the demonstration passes without the
# change, (2) fails with it, (3) the existing suite passes with it. Removes the worktree afterwards.
set -u
patch="$1"; demo="$2"; dest="$3"; shift 3
W=/tmp/vscratch/confirm_$$
mkdir -p /tmp/vscratch
git -C /repo worktree add --detach -f "$W" HEAD >/dev/null 2>&1 || exit 2
cp -a /repo/target "$W/target" 2>/dev/null
mkdir -p "$(dirname "$W/$dest")"
cp "$demo" "$W/$dest"
cd "$W" || exit 2
echo "== demo WITHOUT the change"
cargo test --offline "$@" 2>&1 | grep -E "^test result|^test .*(FAILED|ok)$|error(\[|:)" | head -12
git apply "$patch" || { echo "patch does not apply"; }
echo "== demo WITH the change"
cargo test --offline "$@" 2>&1 | grep -E "^test result|^test .*(FAILED|ok)$|error(\[|:)" | head -12
# drop the demonstration again (untracked files only; the build output stays)
git -C "$W" clean -fdq -e target
echo "== existing suite WITH the change"
cargo test --workspace --no-fail-fast --offline 2>&1 | grep -E "^test result" | awk '{p+=$4; f+=$6} END {print "passed", p, "failed", f}'
cd /
git -C /repo worktree remove --force "$W" >/dev/null 2>&1
git -C /repo worktree prune
[ -d "/tmp/vscratch/confirm_$$" ] && find "/tmp/vscratch/confirm_$$" -mindepth 0 -delete 2>/dev/null
exit 0
