#!/bin/bash
# Scratch copies for sensitivity work: a git worktree of /repo plus a copy of
# the simulator sources that points at it, all outside /repo and /verif.
#   scratch.sh new <name> [<patch.diff>...]   create (and apply patches to the worktree)
#   scratch.sh run <name> <mode> --property Cxx [...]   build + run a check against it
#   scratch.sh rm <name>                      remove worktree, copy and build output
set -u
BASE=${VSCRATCH:-/tmp/vscratch}
cmd=${1:-}; name=${2:-}
S="$BASE/$name"
case "$cmd" in
  new)
    shift 2
    mkdir -p "$BASE"
    git -C /repo worktree add --detach -f "$S/repo" HEAD >/dev/null 2>&1 || { echo "worktree failed"; exit 2; }
    mkdir -p "$S/out"
    rsync -a --exclude target /verif/sim/ "$S/sim/"
    grep -rlE '"/repo/|= "/repo/' "$S/sim" --include=*.toml --include=*.rs | xargs sed -i "s#\"/repo/#\"$S/repo/#g"
    cp /verif/known_findings.json "$S/out/"; cp -r /verif/findings "$S/out/" 2>/dev/null
    for p in "$@"; do git -C "$S/repo" apply "$p" || { echo "patch $p does not apply"; exit 2; }; done
    # reuse compiled third-party crates
    if [ -d /verif/sim/target ] && [ ! -d "$S/sim/target" ]; then cp -a /verif/sim/target "$S/sim/target"; fi
    # never run a binary that was built against another tree: the copied
    # executables go, only compiled third-party crates are reused
    rm -f "$S/sim/target/release/simcheck" "$S/sim/target/release/e3http" "$S/sim/target/release/e4idb"
    rm -rf "$S/sim/target/release/.fingerprint"/sim-* "$S/sim/target/release/.fingerprint"/e3http-* "$S/sim/target/release/.fingerprint"/e4idb-* "$S/sim/target/release/.fingerprint"/searchlite-*
    echo "$S"
    ;;
  run)
    shift 2
    mode="${1:-}"
    case "$mode" in http) pkg=e3http; bin=e3http;; idb) pkg=e4idb; bin=e4idb;; *) pkg=sim; bin=simcheck;; esac
    rm -f "$S/sim/target/release/$bin"
    ( cd "$S/sim" && CARGO_NET_OFFLINE=true cargo build --release --offline -p "$pkg" 2>&1 | grep -E "^error" -A12 | head -40 )
    [ -x "$S/sim/target/release/$bin" ] || { echo "harness error: build failed"; exit 2; }
    cd "$S/out" && VERIF_ROOT="$S/out" "$S/sim/target/release/$bin" "$@"
    ;;
  rm)
    git -C /repo worktree remove --force "$S/repo" >/dev/null 2>&1
    rm -rf "$S"
    git -C /repo worktree prune
    ;;
  *) echo "usage: scratch.sh new|run|rm <name> ..."; exit 2;;
esac
