use sim::work::*;
fn main() {
  for k in [5u64, 10, 97, 194, 97000, 2010] {
    let ver = BIG_VERSIONS + k;
    let d = make_doc(Profile::Basic, "d0", ver);
    println!("ver BIG+{} json {} bytes", k, serde_json::to_string(&d.fields).unwrap().len());
  }
}
