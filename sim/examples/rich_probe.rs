//! Throw-away probe: what does the core store / return for "rich" field shapes,
//! before and after compaction? (used to write the independent projection)
use searchlite_core::api::types::{Document, IndexOptions, Schema, SearchRequest, StorageType};
use searchlite_core::api::Index;
use serde_json::{json, Value};
fn main() {
  let schema: Schema = serde_json::from_value(json!({
    "doc_id_field": "_id",
    "text_fields": [{"name": "body", "analyzer": "default", "stored": true, "indexed": true},
                    {"name": "title", "analyzer": "default", "stored": true, "indexed": true, "nullable": true}],
    "keyword_fields": [{"name": "tag", "stored": true, "indexed": true, "fast": true},
                       {"name": "cat", "stored": true, "indexed": true, "fast": false, "nullable": true}],
    "numeric_fields": [{"name": "n", "i64": true, "fast": true, "stored": true},
                       {"name": "m", "i64": true, "fast": true, "stored": true, "nullable": true},
                       {"name": "price", "i64": false, "fast": true, "stored": true, "nullable": true}],
    "nested_fields": []
  })).unwrap();
  let root = std::path::PathBuf::from("/dev/shm/rich_probe");
  let _ = std::fs::remove_dir_all(&root);
  let opts = IndexOptions { path: root.clone(), create_if_missing: true, enable_positions: true, bm25_k1: 1.2, bm25_b: 0.75, storage: StorageType::Filesystem };
  let idx = Index::create(&root, schema, opts).unwrap();
  let cases: Vec<(&str, Value)> = vec![
    ("t_null", json!({"title": null})), ("t_str", json!({"title": "Title zeta"})), ("t_arr", json!({"title": ["one", "two words"]})), ("t_arr1", json!({"title": ["solo"]})), ("t_empty", json!({"title": []})),
    ("c_null", json!({"cat": null})), ("c_str", json!({"cat": "News"})), ("c_arr", json!({"cat": ["a", "B"]})),
    ("m_null", json!({"m": null})), ("m_one", json!({"m": 5})), ("m_arr", json!({"m": [1, 2, 3]})), ("m_empty", json!({"m": []})), ("m_neg", json!({"m": [-7]})), ("m_big", json!({"m": 9007199254740993i64})),
    ("p_null", json!({"price": null})), ("p_int", json!({"price": 4})), ("p_f", json!({"price": 2.5})), ("p_f0", json!({"price": 3.0})), ("p_arr", json!({"price": [1.5, -0.25]})), ("p_big", json!({"price": 1e15})), ("p_small", json!({"price": 1e-7})),
  ];
  let mut w = idx.writer().unwrap();
  for (i, (id, extra)) in cases.iter().enumerate() {
    let mut d = json!({"_id": id, "body": "alpha", "n": i});
    for (k, v) in extra.as_object().unwrap() { d[k] = v.clone(); }
    let doc = Document { fields: serde_json::from_value(d).unwrap() };
    match w.add_document(&doc) { Ok(_) => {}, Err(e) => println!("REJECT {} {}", id, e) }
    if i == 10 { w.commit().unwrap(); }
  }
  w.commit().unwrap();
  let show = |idx: &Index, tag: &str| {
    let r: SearchRequest = serde_json::from_value(json!({"query": {"type":"match_all"}, "limit": 100, "return_stored": true})).unwrap();
    let rd = idx.reader().unwrap();
    let mut hits: Vec<(String, Value)> = rd.search(&r).unwrap().hits.into_iter().map(|h| (h.doc_id, h.fields.unwrap_or(Value::Null))).collect();
    hits.sort_by(|a, b| a.0.cmp(&b.0));
    for (id, f) in hits { println!("{} {} {}", tag, id, f); }
    for (label, f) in [("m in 1..3", json!({"I64Range":{"field":"m","min":1,"max":3}})), ("price 0..3", json!({"F64Range":{"field":"price","min":0.0,"max":3.0}})), ("cat=news", json!({"KeywordEq":{"field":"cat","value":"news"}}))] {
      let r: Result<SearchRequest, _> = serde_json::from_value(json!({"query": {"type":"match_all"}, "limit": 100, "return_stored": false, "filter": f}));
      match r { Ok(r) => match rd.search(&r) { Ok(res) => { let mut v: Vec<String> = res.hits.into_iter().map(|h| h.doc_id).collect(); v.sort(); println!("{} FILTER {} -> {:?}", tag, label, v) }, Err(e) => println!("{} FILTER {} ERR {}", tag, label, e) }, Err(e) => println!("{} FILTER {} BADREQ {}", tag, label, e) }
    }
    for (label, q) in [("title:zeta", json!({"type":"term","field":"title","value":"zeta"})), ("cat:news", json!({"type":"term","field":"cat","value":"news"})), ("cat:News", json!({"type":"term","field":"cat","value":"News"}))] {
      let r: SearchRequest = serde_json::from_value(json!({"query": q, "limit": 100, "return_stored": false})).unwrap();
      match rd.search(&r) { Ok(res) => { let mut v: Vec<String> = res.hits.into_iter().map(|h| h.doc_id).collect(); v.sort(); println!("{} QUERY {} -> {:?}", tag, label, v) }, Err(e) => println!("{} QUERY {} ERR {}", tag, label, e) }
    }
  };
  show(&idx, "before");
  match idx.compact() { Ok(()) => println!("compacted"), Err(e) => println!("COMPACT ERR {}", e) }
  show(&idx, "after ");
}
