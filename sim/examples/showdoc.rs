use sim::work::*;
use std::sync::Arc;
use searchlite_core::storage::{InMemoryStorage, Storage};
fn main() {
  // size of the postings file of a commit made of one token-less document
  let cfg = Cfg { storage: StorageKind::Mem, profile: Profile::Basic, positions: true, ids: 2, transparent: false, odd_ids: false };
  let root = std::path::PathBuf::from("/mem");
  let mut s = Session::create(&cfg, &root, None).unwrap_or_else(|o| panic!("{:?}", o));
  s.exec(&Op::NewWriter { h: 0 });
  println!("{:?}", s.exec(&Op::Add { h: 0, id: "d0".into(), ver: 5 }));
  println!("{:?}", s.exec(&Op::Commit { h: 0 }));
  let mem: Arc<InMemoryStorage> = s.mem.clone().unwrap();
  let m = s.index.as_ref().unwrap().manifest();
  for seg in m.segments {
    for p in [&seg.paths.postings, &seg.paths.terms, &seg.paths.docstore] {
      println!("{} {}", p, mem.read_to_end(std::path::Path::new(p)).map(|d| d.len()).unwrap_or(9999));
    }
  }
  println!("{:?}", s.observe().map(|o| o.short()));
}
