use sim::work::*;
fn main() {
  let a: Vec<String> = std::env::args().collect();
  let ver: u64 = a[1].parse().unwrap();
  let d = make_doc(Profile::Nested, "d1", ver);
  println!("{}", serde_json::to_string(&d.fields).unwrap());
  println!("{}", stored_projection(Profile::Nested, &d));
}
