//! A pass-through file system for E3: every `FsStorage` primitive under the
//! mounted prefix goes to the real directory (tmpfs), but one primitive per armed
//! request can be made to fail with an I/O error or to panic - the way a request
//! "makes the core return errors or panic" without any special input.

use std::io::{self, Read, Seek, SeekFrom, Write};
use std::path::Path;
use std::sync::{Arc, Mutex};

use searchlite_core::verif::fs::{OpenOpts, Vfs, VfsFile};

#[derive(Clone, Copy, Debug, PartialEq, Eq)]
pub enum Kind {
  Eio,
  Panic,
}

#[derive(Default)]
pub struct PState {
  pub armed: bool,
  pub count: u64,
  pub plan: Option<(u64, Kind)>,
  pub fired: Option<(u64, String)>,
}

#[derive(Clone, Default)]
pub struct PassFs {
  st: Arc<Mutex<PState>>,
}

impl PassFs {
  pub fn new() -> Self {
    Self::default()
  }
  pub fn arm(&self, at: u64, kind: Kind) {
    let mut s = self.st.lock().unwrap_or_else(|e| e.into_inner());
    s.armed = true;
    s.count = 0;
    s.plan = Some((at, kind));
    s.fired = None;
  }
  /// Returns what fired (primitive index, name) and the number of primitives seen.
  pub fn disarm(&self) -> (Option<(u64, String)>, u64) {
    let mut s = self.st.lock().unwrap_or_else(|e| e.into_inner());
    s.armed = false;
    s.plan = None;
    (s.fired.take(), s.count)
  }
  fn gate(st: &Arc<Mutex<PState>>, what: &str) -> io::Result<()> {
    let kind = {
      let mut s = st.lock().unwrap_or_else(|e| e.into_inner());
      if !s.armed {
        return Ok(());
      }
      let idx = s.count;
      s.count += 1;
      match s.plan {
        Some((at, kind)) if at == idx => {
          s.fired = Some((idx, what.to_string()));
          kind
        }
        _ => return Ok(()),
      }
    };
    match kind {
      Kind::Eio => Err(io::Error::new(io::ErrorKind::Other, format!("injected I/O error at {}", what))),
      Kind::Panic => panic!("injected panic at storage primitive {}", what),
    }
  }
}

struct PassFile {
  file: std::fs::File,
  st: Arc<Mutex<PState>>,
}

impl VfsFile for PassFile {
  fn read(&mut self, buf: &mut [u8]) -> io::Result<usize> {
    PassFs::gate(&self.st, "read")?;
    self.file.read(buf)
  }
  fn write(&mut self, buf: &[u8]) -> io::Result<usize> {
    PassFs::gate(&self.st, "write")?;
    self.file.write(buf)
  }
  fn flush(&mut self) -> io::Result<()> {
    self.file.flush()
  }
  fn seek(&mut self, pos: SeekFrom) -> io::Result<u64> {
    self.file.seek(pos)
  }
  fn set_len(&self, len: u64) -> io::Result<()> {
    PassFs::gate(&self.st, "set_len")?;
    self.file.set_len(len)
  }
  fn sync_all(&self) -> io::Result<()> {
    PassFs::gate(&self.st, "fsync")?;
    self.file.sync_all()
  }
}

impl Vfs for PassFs {
  fn open(&self, path: &Path, o: OpenOpts) -> io::Result<Box<dyn VfsFile>> {
    PassFs::gate(&self.st, "open")?;
    let file = std::fs::OpenOptions::new().read(o.read).write(o.write).append(o.append).create(o.create).truncate(o.truncate).open(path)?;
    Ok(Box::new(PassFile { file, st: self.st.clone() }))
  }
  fn create_dir_all(&self, path: &Path) -> io::Result<()> {
    PassFs::gate(&self.st, "mkdir")?;
    std::fs::create_dir_all(path)
  }
  fn rename(&self, from: &Path, to: &Path) -> io::Result<()> {
    PassFs::gate(&self.st, "rename")?;
    std::fs::rename(from, to)
  }
  fn remove_file(&self, path: &Path) -> io::Result<()> {
    PassFs::gate(&self.st, "unlink")?;
    std::fs::remove_file(path)
  }
  fn remove_dir_all(&self, path: &Path) -> io::Result<()> {
    PassFs::gate(&self.st, "rmdir")?;
    std::fs::remove_dir_all(path)
  }
  fn exists(&self, path: &Path) -> bool {
    path.exists()
  }
}
