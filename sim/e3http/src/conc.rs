//! Concurrent clients for E3: several requests are in flight on the real router at
//! once, and the simulator - not the OS - decides every interleaving.
//!
//! * Request futures are polled by a seeded executor future on the (single)
//!   runtime thread; a request future is only polled after its waker fired.
//! * Handlers leave that thread through `tokio::task::spawn_blocking`. The
//!   `searchlite_http::verif_rt` hooks give every blocking task an id at spawn time
//!   (on the runtime thread, hence in a deterministic order) and park its pool
//!   thread before the closure starts, at every outermost core lock
//!   acquire/release (hooks of `searchlite_core::verif::sync`) and whenever the
//!   service-wide writer lock is contended. A parked task runs exactly one stretch
//!   when the executor picks it, while the runtime thread waits: one thread runs
//!   at a time, the schedule is an explicit list of choices.
//! * The clock is tokio's paused clock: it only moves when nothing can run.
//!
//! Oracle: the responses of the concurrent block plus a final sequential
//! commit/search must be explained by some linearization of the acknowledged
//! requests on the queue model (C23); every request gets a well-formed response
//! and the service stays up (C24).

use std::collections::{BTreeMap, HashSet};
use std::future::Future;
use std::pin::Pin;
use std::sync::atomic::{AtomicBool, Ordering};
use std::sync::{Arc, Condvar, Mutex};
use std::task::{Context, Poll, Wake, Waker};

use searchlite_core::verif::sync as coresync;
use searchlite_http::verif_rt::RtHooks;
use serde::{Deserialize, Serialize};

use sim::model::{fold, Contents, QOp};
use sim::rng::Rng;

// ---------------------------------------------------------------------------
// task table: blocking tasks parked at yield points

#[derive(Clone, Copy, Debug, PartialEq, Eq)]
enum TState {
  Spawned,
  Parked,
  Running,
  Done,
}

struct Inner {
  m: Mutex<State>,
  cv: Condvar,
}

struct State {
  next: u64,
  tasks: BTreeMap<u64, TState>,
  running: Option<u64>,
  /// request being polled when a task was spawned
  cur_req: Option<usize>,
  owner: BTreeMap<u64, Option<usize>>,
  contended: BTreeMap<u64, bool>,
  pub switches: u64,
  last_run: Option<u64>,
}

#[derive(Clone)]
pub struct Sched(Arc<Inner>);

thread_local! {
  static TASK: std::cell::Cell<Option<u64>> = const { std::cell::Cell::new(None) };
  static DEPTH: std::cell::Cell<u32> = const { std::cell::Cell::new(0) };
}

impl Sched {
  pub fn new() -> Self {
    Sched(Arc::new(Inner {
      m: Mutex::new(State {
        next: 0,
        tasks: BTreeMap::new(),
        running: None,
        cur_req: None,
        owner: BTreeMap::new(),
        contended: BTreeMap::new(),
        switches: 0,
        last_run: None,
      }),
      cv: Condvar::new(),
    }))
  }

  fn park(&self, id: u64, contended: bool) {
    let mut st = self.0.m.lock().unwrap();
    st.tasks.insert(id, TState::Parked);
    st.contended.insert(id, contended);
    if st.running == Some(id) {
      st.running = None;
    }
    self.0.cv.notify_all();
    while st.running != Some(id) {
      st = self.0.cv.wait(st).unwrap();
    }
    st.tasks.insert(id, TState::Running);
  }

  fn park_current(&self, contended: bool) {
    if let Some(id) = TASK.with(|t| t.get()) {
      self.park(id, contended);
    }
  }

  pub fn set_current_request(&self, r: Option<usize>) {
    self.0.m.lock().unwrap().cur_req = r;
  }

  /// ids of tasks that exist and have not finished, ascending
  pub fn live(&self) -> Vec<u64> {
    let st = self.0.m.lock().unwrap();
    st.tasks.iter().filter(|(_, s)| **s != TState::Done).map(|(i, _)| *i).collect()
  }

  pub fn owner(&self, id: u64) -> Option<usize> {
    self.0.m.lock().unwrap().owner.get(&id).copied().flatten()
  }

  pub fn switches(&self) -> u64 {
    self.0.m.lock().unwrap().switches
  }

  /// Let task `id` run one stretch (to its next yield point or its end) while
  /// the calling thread waits. Returns true when the task finished.
  pub fn step(&self, id: u64) -> bool {
    let mut st = self.0.m.lock().unwrap();
    while st.tasks.get(&id) == Some(&TState::Spawned) {
      st = self.0.cv.wait(st).unwrap();
    }
    if st.tasks.get(&id) != Some(&TState::Parked) {
      return st.tasks.get(&id) == Some(&TState::Done);
    }
    if st.last_run.is_some() && st.last_run != Some(id) {
      st.switches += 1;
    }
    st.last_run = Some(id);
    st.running = Some(id);
    self.0.cv.notify_all();
    while st.running == Some(id) {
      st = self.0.cv.wait(st).unwrap();
    }
    st.tasks.get(&id) == Some(&TState::Done)
  }
}

impl RtHooks for Sched {
  fn spawned(&self) -> u64 {
    let mut st = self.0.m.lock().unwrap();
    let id = st.next;
    st.next += 1;
    st.tasks.insert(id, TState::Spawned);
    let owner = st.cur_req;
    st.owner.insert(id, owner);
    id
  }
  fn begin(&self, task: u64) {
    TASK.with(|t| t.set(Some(task)));
    DEPTH.with(|d| d.set(0));
    coresync::set_thread_hooks(Some(Arc::new(CoreHooks(self.clone()))));
    self.park(task, false);
  }
  fn end(&self, task: u64) {
    coresync::set_thread_hooks(None);
    TASK.with(|t| t.set(None));
    let mut st = self.0.m.lock().unwrap();
    st.tasks.insert(task, TState::Done);
    if st.running == Some(task) {
      st.running = None;
    }
    self.0.cv.notify_all();
  }
  fn contended(&self) {
    self.park_current(true);
  }
}

/// Core lock hooks on a pool thread: yield only at the outermost lock boundary,
/// so that no task is ever parked while it holds a core lock.
struct CoreHooks(Sched);

impl coresync::SchedHooks for CoreHooks {
  fn before_acquire(&self, _lock: usize, _kind: coresync::LockKind) {
    let depth = DEPTH.with(|d| d.get());
    if depth == 0 {
      self.0.park_current(false);
    }
    DEPTH.with(|d| d.set(depth + 1));
  }
  fn released(&self, _lock: usize, _kind: coresync::LockKind) {
    let depth = DEPTH.with(|d| d.get()).saturating_sub(1);
    DEPTH.with(|d| d.set(depth));
    if depth == 0 {
      self.0.park_current(false);
    }
  }
}

// ---------------------------------------------------------------------------
// seeded executor

struct SlotWaker {
  flag: AtomicBool,
  outer: Mutex<Option<Waker>>,
}

impl Wake for SlotWaker {
  fn wake(self: Arc<Self>) {
    self.wake_by_ref();
  }
  fn wake_by_ref(self: &Arc<Self>) {
    self.flag.store(true, Ordering::SeqCst);
    if let Some(w) = self.outer.lock().unwrap().as_ref() {
      w.wake_by_ref();
    }
  }
}

pub type ReqFuture<T> = Pin<Box<dyn Future<Output = T>>>;

struct Slot<T> {
  idx: usize,
  fut: ReqFuture<T>,
  waker: Arc<SlotWaker>,
}

#[derive(Clone, Debug, Serialize, Deserialize, PartialEq)]
pub struct Timing {
  pub invoke: u64,
  /// None = the client went away before a response arrived
  pub ret: Option<u64>,
}

pub struct BlockResult<T> {
  pub outputs: Vec<Option<T>>,
  pub timing: Vec<Timing>,
  pub choices: Vec<u32>,
  pub trace: Vec<String>,
  pub steps: u64,
  pub switches: u64,
  pub max_live_tasks: usize,
  pub budget_exhausted: bool,
}

/// Where the next choice comes from: an explicit list (replay, soft: an index
/// out of range wraps) followed by the PRNG.
pub struct Chooser {
  pub fixed: Vec<u32>,
  pub pos: usize,
  pub rng: Rng,
}

impl Chooser {
  fn pick(&mut self, n: usize) -> usize {
    let c = if self.pos < self.fixed.len() {
      self.fixed[self.pos] as usize % n
    } else {
      self.rng.usize(n)
    };
    self.pos += 1;
    c
  }
}

#[derive(Clone, Copy, Debug, PartialEq)]
enum Choice {
  Start,
  Poll(usize),
  Step(u64),
}

/// Runs `n` requests (created on demand by `make`, in index order) with at most
/// `width` in flight. `cancel_at[i] = Some(k)`: the client of request `i` goes
/// away at executor step `k` if the request is still in flight then.
pub async fn run_block<T: 'static>(
  n: usize,
  width: usize,
  make: &mut dyn FnMut(usize) -> ReqFuture<T>,
  cancel_at: &[Option<u64>],
  sched: &Sched,
  chooser: &mut Chooser,
  step_budget: u64,
) -> BlockResult<T> {
  let mut next_start = 0usize;
  let mut inflight: Vec<Slot<T>> = Vec::new();
  let mut outputs: Vec<Option<T>> = (0..n).map(|_| None).collect();
  let mut timing: Vec<Timing> = (0..n).map(|_| Timing { invoke: 0, ret: None }).collect();
  let mut choices: Vec<u32> = Vec::new();
  let mut trace: Vec<String> = Vec::new();
  let mut step = 0u64;
  let mut max_live = 0usize;
  let mut exhausted = false;
  std::future::poll_fn(|cx: &mut Context<'_>| {
    loop {
      // clients that go away now
      let mut k = 0;
      while k < inflight.len() {
        let i = inflight[k].idx;
        if cancel_at.get(i).copied().flatten().map(|c| step >= c).unwrap_or(false) {
          trace.push(format!("{} cancel r{}", step, i));
          inflight.remove(k);
        } else {
          k += 1;
        }
      }
      let live = sched.live();
      max_live = max_live.max(live.len());
      let mut ch: Vec<Choice> = Vec::new();
      if next_start < n && inflight.len() < width {
        ch.push(Choice::Start);
      }
      for s in inflight.iter() {
        if s.waker.flag.load(Ordering::SeqCst) {
          ch.push(Choice::Poll(s.idx));
        }
      }
      for t in live.iter() {
        ch.push(Choice::Step(*t));
      }
      if ch.is_empty() {
        if inflight.is_empty() && next_start >= n {
          return Poll::Ready(());
        }
        // nothing can run: let the (simulated) clock move
        for s in inflight.iter() {
          *s.waker.outer.lock().unwrap() = Some(cx.waker().clone());
        }
        return Poll::Pending;
      }
      if step >= step_budget {
        exhausted = true;
        return Poll::Ready(());
      }
      let c = chooser.pick(ch.len());
      choices.push(c as u32);
      match ch[c] {
        Choice::Start => {
          let i = next_start;
          next_start += 1;
          timing[i].invoke = step;
          trace.push(format!("{} start r{}", step, i));
          let waker = Arc::new(SlotWaker {
            flag: AtomicBool::new(true),
            outer: Mutex::new(Some(cx.waker().clone())),
          });
          inflight.push(Slot { idx: i, fut: make(i), waker });
        }
        Choice::Poll(i) => {
          let pos = inflight.iter().position(|s| s.idx == i).unwrap();
          let slot = &mut inflight[pos];
          slot.waker.flag.store(false, Ordering::SeqCst);
          *slot.waker.outer.lock().unwrap() = Some(cx.waker().clone());
          let w = Waker::from(slot.waker.clone());
          let mut scx = Context::from_waker(&w);
          sched.set_current_request(Some(i));
          let r = slot.fut.as_mut().poll(&mut scx);
          sched.set_current_request(None);
          match r {
            Poll::Ready(out) => {
              trace.push(format!("{} done r{}", step, i));
              outputs[i] = Some(out);
              timing[i].ret = Some(step);
              inflight.remove(pos);
            }
            Poll::Pending => trace.push(format!("{} poll r{}", step, i)),
          }
        }
        Choice::Step(t) => {
          let finished = sched.step(t);
          trace.push(format!("{} task t{}{}", step, t, if finished { " end" } else { "" }));
          if finished {
            // the join handle completes just after the closure returned, on the
            // pool thread: wait for that wake-up so that it is never raced
            if let Some(owner) = sched.owner(t) {
              if let Some(s) = inflight.iter().find(|s| s.idx == owner) {
                let t0 = std::time::Instant::now();
                while !s.waker.flag.load(Ordering::SeqCst) && t0.elapsed().as_secs() < 120 {
                  std::thread::yield_now();
                }
              }
            }
          }
        }
      }
      step += 1;
    }
  })
  .await;
  BlockResult {
    outputs,
    timing,
    choices,
    trace,
    steps: step,
    switches: sched.switches(),
    max_live_tasks: max_live,
    budget_exhausted: exhausted,
  }
}

// ---------------------------------------------------------------------------
// linearizability on the queue model

#[derive(Clone, Debug)]
pub enum HOp {
  /// an acknowledged write: these operations were appended to the queue
  Write(Vec<QOp>),
  /// a write whose client went away: may have been applied (completely) or not
  MaybeWrite(Vec<QOp>),
  /// an acknowledged commit
  Commit,
  /// a commit whose client went away
  MaybeCommit,
  /// a match_all search that returned these contents
  Read(Contents),
  /// /stats returned this many live documents
  Count(u64),
  /// no effect on the model (rejected request, refresh, compact, ...)
  Nop,
}

#[derive(Clone, Debug)]
pub struct HEvent {
  pub op: HOp,
  pub invoke: u64,
  /// u64::MAX for operations without a response
  pub ret: u64,
  pub label: String,
}

fn state_key(queue: &[QOp], committed: &Contents) -> u64 {
  let mut s = String::new();
  for q in queue {
    s.push_str(&q.short());
    s.push('|');
  }
  s.push('#');
  for (k, v) in committed {
    s.push_str(k);
    s.push('@');
    s.push_str(&v.ver.to_string());
    s.push('|');
  }
  sim::rng::hash_bytes(3, s.as_bytes())
}

/// Is there an order of the events, consistent with real time (an event that
/// returned before another was invoked comes first), under which the queue
/// model produces every observed result? Events without a response may also be
/// left out.
pub fn linearizable(queue0: &[QOp], committed0: &Contents, events: &[HEvent], explored: &mut u64) -> bool {
  fn rec(done: u64, events: &[HEvent], queue: &Vec<QOp>, committed: &Contents, memo: &mut HashSet<(u64, u64)>, explored: &mut u64) -> bool {
    let all = if events.len() == 64 { u64::MAX } else { (1u64 << events.len()) - 1 };
    if done == all {
      return true;
    }
    if !memo.insert((done, state_key(queue, committed))) {
      return false;
    }
    *explored += 1;
    // an event may go next when no other remaining event returned before its invocation
    let min_ret = events.iter().enumerate().filter(|(i, _)| done & (1 << i) == 0).map(|(_, e)| e.ret).min().unwrap_or(u64::MAX);
    for (i, e) in events.iter().enumerate() {
      if done & (1 << i) != 0 || e.invoke > min_ret {
        continue;
      }
      let optional = matches!(e.op, HOp::MaybeWrite(_) | HOp::MaybeCommit);
      // apply
      let mut q = queue.clone();
      let mut c = committed.clone();
      let ok = match &e.op {
        HOp::Write(ops) | HOp::MaybeWrite(ops) => {
          q.extend(ops.iter().cloned());
          true
        }
        HOp::Commit | HOp::MaybeCommit => {
          c = fold(&c, &q);
          q.clear();
          true
        }
        HOp::Read(seen) => *seen == c,
        HOp::Count(n) => *n == c.len() as u64,
        HOp::Nop => true,
      };
      if ok && rec(done | (1 << i), events, &q, &c, memo, explored) {
        return true;
      }
      if optional && rec(done | (1 << i), events, queue, committed, memo, explored) {
        return true;
      }
    }
    false
  }
  if events.len() > 63 {
    return true;
  }
  let mut memo = HashSet::new();
  rec(0, events, &queue0.to_vec(), committed0, &mut memo, explored)
}
