//! E3 `http`: request histories against the real axum router, in-process, on a
//! current-thread tokio runtime with the clock paused (C23, C24).

use std::collections::BTreeMap;
use std::panic::{catch_unwind, AssertUnwindSafe};
use std::path::{Path, PathBuf};
use std::time::Duration;

use axum::body::Body;
use axum::http::{Request, StatusCode};
use bytes::Bytes;
use clap::Parser;
use futures_util::stream::{self, StreamExt};
use serde::{Deserialize, Serialize};
use serde_json::{json, Value};
use tower_service::Service;

mod conc;
mod passfs;

use sim::cli::{drive, parse_args, Engine};
use sim::kit::{Stats, Violation};
use sim::model::{contents_short, fold, Contents, QOp, Version};
use sim::rng::{hash_bytes, Rng};
use sim::work::{make_doc, schema, stored_projection, Profile};

#[derive(Clone, Debug, Serialize, Deserialize, PartialEq)]
#[serde(rename_all = "snake_case")]
pub enum DocSpec {
  Valid { id: String, ver: u64 },
  MalformedJson,
  NotObject,
  MissingId,
  BlankId,
  WrongType,
  NullField,
  NumericId,
}

#[derive(Clone, Debug, Serialize, Deserialize, PartialEq)]
#[serde(rename_all = "snake_case")]
pub enum ReqKind {
  Init { bad: bool },
  Add { docs: Vec<DocSpec> },
  Bulk { docs: Vec<DocSpec>, malformed: bool },
  /// an NDJSON upload of `n` small documents L0..L(n-1), versions `first_ver`..;
  /// bad: 0 all valid, 1 the last line is not JSON, 2 the last document has a wrong
  /// value type, 3 a line in the middle is not JSON, 4 all valid and the first
  /// document is a giant one (well over 1 MiB of text)
  AddLarge { n: u32, first_ver: u64, bad: u8 },
  Delete { ids: Vec<String> },
  Commit,
  Refresh,
  Compact,
  Stats,
  Inspect,
  Healthz,
  /// 0 match_all, 1 limit 0, 2 malformed json, 3 term query, 4 unknown filter field,
  /// 5 bad cursor, 6 aggregation on a non-fast field, 7.. requests whose error
  /// message echoes a long non-ASCII caller string (variant encodes kind, pad, length)
  Search { variant: u8 },
  /// well-formed search requests with extreme numeric parameters (sizes,
  /// limits, windows near or at the integer limits, deep nesting)
  SearchBig { n: u8 },
  Raw { method: String, path: String, content_type: Option<String>, body: String },
}

#[derive(Clone, Debug, Serialize, Deserialize, PartialEq, Default)]
pub struct Transport {
  /// body split sizes (cycled); empty = one chunk
  pub chunks: Vec<u16>,
  /// never deliver anything after this many chunks (the client stalls)
  pub stall_after: Option<u32>,
  /// send a Content-Length header
  pub content_length: bool,
  /// pad the body with this many bytes of whitespace/filler (oversize tests)
  pub pad: u32,
  /// the connection breaks: the body stream yields an I/O error after this many chunks
  #[serde(default)]
  pub break_after: Option<u32>,
}

/// One storage primitive under the index directory fails (or panics) while this
/// request is being served.
#[derive(Clone, Debug, Serialize, Deserialize, PartialEq)]
pub struct FsFault {
  /// index of the primitive, counted from the start of the request
  pub at: u32,
  /// "eio" or "panic"
  pub kind: String,
}

#[derive(Clone, Debug, Serialize, Deserialize, PartialEq)]
pub struct Req {
  pub kind: ReqKind,
  #[serde(default)]
  pub t: Transport,
  #[serde(default)]
  pub fs_fault: Option<FsFault>,
}

/// A block of requests that are in flight at the same time, after the
/// sequential part of the case.
#[derive(Clone, Debug, Serialize, Deserialize, PartialEq)]
pub struct ConcSpec {
  pub reqs: Vec<Req>,
  /// at most this many requests in flight
  pub width: u8,
  pub seed: u64,
  /// explicit executor choices (replay); the PRNG continues where the list ends
  #[serde(default)]
  pub schedule: Vec<u32>,
  /// `cancel[i] = k`: the client of request `i` goes away at executor step `k`
  #[serde(default)]
  pub cancel: Vec<Option<u64>>,
}

#[derive(Clone, Debug, Serialize, Deserialize, PartialEq)]
pub struct HttpCase {
  pub max_body: u32,
  pub reqs: Vec<Req>,
  #[serde(default)]
  pub conc: Option<ConcSpec>,
}

const MAX_BODY: u32 = 16 * 1024;

fn doc_json(spec: &DocSpec) -> String {
  match spec {
    DocSpec::Valid { id, ver } => serde_json::to_string(&make_doc(Profile::Basic, id, *ver).fields).unwrap(),
    DocSpec::MalformedJson => "{\"_id\": \"m1\", \"body\": ".into(),
    DocSpec::NotObject => "[1, 2, 3]".into(),
    DocSpec::MissingId => "{\"body\": \"alpha beta\"}".into(),
    DocSpec::BlankId => "{\"_id\": \"   \", \"body\": \"alpha\"}".into(),
    DocSpec::WrongType => "{\"_id\": \"w1\", \"body\": \"alpha\", \"n\": \"not a number\"}".into(),
    DocSpec::NullField => "{\"_id\": \"n1\", \"body\": null}".into(),
    DocSpec::NumericId => "{\"_id\": 5, \"body\": \"alpha\"}".into(),
  }
}

/// Version of the i-th document of a large upload (the first one of a "giant"
/// upload is a version whose document is well over 1 MiB).
fn large_ver(first_ver: u64, i: u32, bad: u8) -> u64 {
  if bad == 4 && i == 0 {
    sim::work::BIG_VERSIONS + 2010
  } else {
    first_ver + i as u64
  }
}

fn is_valid(spec: &DocSpec) -> bool {
  matches!(spec, DocSpec::Valid { .. })
}

/// Valid today, but an id a stricter validation might legitimately refuse
/// (whitespace, control characters...): a 4xx is tolerated, a loss is not.
fn has_odd_id(spec: &DocSpec) -> bool {
  match spec {
    DocSpec::Valid { id, .. } => id.trim().len() != id.len() || id.chars().any(|c| c.is_control() || !c.is_ascii_alphanumeric()),
    _ => false,
  }
}

fn gen_docs(rng: &mut Rng, ids: &[String], ver: &mut u64, invalid_ok: bool, allow_malformed: bool) -> Vec<DocSpec> {
  let n = 1 + rng.usize(3);
  let mut out = Vec::new();
  let bad_at = if invalid_ok && rng.chance(1, 3) { Some(rng.usize(n)) } else { None };
  for i in 0..n {
    if Some(i) == bad_at {
      let kinds = if allow_malformed {
        vec![
          DocSpec::MalformedJson,
          DocSpec::NotObject,
          DocSpec::MissingId,
          DocSpec::BlankId,
          DocSpec::WrongType,
          DocSpec::NullField,
          DocSpec::NumericId,
        ]
      } else {
        vec![DocSpec::NotObject, DocSpec::MissingId, DocSpec::BlankId, DocSpec::WrongType, DocSpec::NullField, DocSpec::NumericId]
      };
      out.push(rng.pick(&kinds).clone());
    } else {
      out.push(DocSpec::Valid {
        id: rng.pick(ids).clone(),
        ver: *ver,
      });
      *ver += 1;
    }
  }
  out
}

fn gen_transport(rng: &mut Rng, c24: bool) -> Transport {
  let mut t = Transport {
    chunks: Vec::new(),
    stall_after: None,
    content_length: true,
    pad: 0,
    break_after: None,
  };
  if rng.chance(1, 2) {
    let n = 1 + rng.usize(4);
    t.chunks = (0..n)
      .map(|_| {
        let hi = if rng.chance(1, 2) { 7 } else { 300 };
        1 + rng.below(hi) as u16
      })
      .collect();
    t.content_length = rng.chance(1, 2);
  }
  if c24 {
    match rng.below(24) {
      0 => {
        t.stall_after = Some(rng.below(3) as u32);
        if t.chunks.is_empty() {
          t.chunks = vec![5];
        }
        t.content_length = false;
      }
      1 => {
        t.pad = MAX_BODY + 1 + rng.below(5000) as u32;
        t.content_length = true;
      }
      2 => {
        t.pad = MAX_BODY + 1 + rng.below(5000) as u32;
        t.content_length = false;
        t.chunks = vec![1000];
      }
      3 => {
        t.break_after = Some(rng.below(3) as u32);
        if t.chunks.is_empty() {
          t.chunks = vec![1 + rng.below(9) as u16];
        }
        t.content_length = false;
      }
      _ => {}
    }
  }
  t
}

/// Ids that are unusual but valid (accepted when queued): surrounding
/// whitespace, control and non-ASCII characters, quotes, slashes, length.
const ODD_IDS: [&str; 10] = [" d0", "d1 ", "d\t2", "d\u{0007}3", "\u{00e9}\u{4e16}\u{1f600}", "a/b\\c", "\"q\"", "D0", "d 0", "xxxxxxxxxxxxxxxxxxxxxxxxxxxxxxxxxxxxxxxxxxxxxxxxxxxxxxxxxxxxxxxxxxxxxxxxxxxxxxxxxxxxxxxx"];

fn gen_case(rng: &mut Rng, c24: bool, thorough: bool) -> HttpCase {
  let mut ids: Vec<String> = (0..2 + rng.usize(3)).map(|i| format!("d{}", i)).collect();
  if rng.chance(1, 3) {
    for _ in 0..1 + rng.usize(2) {
      ids.push(rng.pick(&ODD_IDS).to_string());
    }
  }
  let mut ver = 1u64;
  let mut reqs = Vec::new();
  // sometimes poke the service before /init
  if rng.chance(1, 4) {
    for _ in 0..1 + rng.usize(2) {
      let kind = match rng.below(6) {
        0 => ReqKind::Commit,
        1 => ReqKind::Stats,
        2 => ReqKind::Search { variant: 0 },
        3 => ReqKind::Add {
          docs: gen_docs(rng, &ids, &mut ver, true, true),
        },
        4 => ReqKind::Delete { ids: vec!["d0".into()] },
        _ => ReqKind::Compact,
      };
      reqs.push(Req {
        kind,
        t: Transport {
          content_length: true,
          ..Default::default()
        },
        fs_fault: None,
      });
    }
  }
  if c24 && rng.chance(1, 5) {
    reqs.push(Req {
      kind: ReqKind::Init { bad: true },
      t: gen_transport(rng, false),
      fs_fault: None,
    });
  }
  reqs.push(Req {
    kind: ReqKind::Init { bad: false },
    t: gen_transport(rng, false),
    fs_fault: None,
  });
  // a third of the cases end in a block of concurrent requests (short
  // sequential part, so that most of the run is the block)
  let with_conc = rng.chance(1, 3);
  let n = if with_conc {
    rng.usize(6)
  } else if rng.chance(3, 4) {
    5 + rng.usize(12)
  } else {
    15 + rng.usize(if thorough { 60 } else { 25 })
  };
  for _ in 0..n {
    let w: [u32; 13] = if c24 { [12, 10, 6, 8, 3, 3, 8, 3, 2, 2, 2, 8, 5] } else { [22, 16, 10, 14, 3, 4, 4, 2, 0, 0, 2, 0, 0] };
    let kind = match rng.weighted(&w) {
      0 => ReqKind::Add {
        docs: gen_docs(rng, &ids, &mut ver, true, true),
      },
      1 => ReqKind::Bulk {
        docs: gen_docs(rng, &ids, &mut ver, true, false),
        malformed: c24 && rng.chance(1, 10),
      },
      2 => {
        let plain: Vec<String> = ids.iter().filter(|i| i.trim().len() == i.len() && !i.chars().any(|c| c.is_control())).cloned().collect();
        let mut v: Vec<String> = (0..1 + rng.usize(2)).map(|_| rng.pick(&plain).clone()).collect();
        if rng.chance(1, 6) {
          v.push(rng.pick(&["".to_string(), "  ".to_string(), " d0".to_string(), "d\u{0007}x".to_string()]).clone());
        }
        ReqKind::Delete { ids: v }
      }
      3 => ReqKind::Commit,
      4 => ReqKind::Refresh,
      5 => ReqKind::Compact,
      6 => ReqKind::Search {
        variant: if c24 {
          if rng.chance(1, 3) {
            7 + rng.below(240) as u8
          } else {
            rng.below(7) as u8
          }
        } else {
          0
        },
      },
      7 => ReqKind::Stats,
      8 => ReqKind::Inspect,
      9 => ReqKind::Healthz,
      10 => ReqKind::Init { bad: false },
      12 => ReqKind::SearchBig { n: rng.below(28) as u8 },
      _ => {
        let (m, p) = rng
          .pick(&[
            ("GET", "/nope"),
            ("POST", "/nope"),
            ("GET", "/commit"),
            ("DELETE", "/add"),
            ("POST", "/healthz"),
            ("PUT", "/search"),
            ("POST", "/search/extra"),
            ("GET", "/"),
          ])
          .clone();
        let body = rng.pick(&["", "{}", "{\"docs\": 5}", "\u{00e9}\u{4e16}\u{1f600}", "null", "{\"ids\": [1]}"]).to_string();
        ReqKind::Raw {
          method: m.into(),
          path: p.into(),
          content_type: rng.pick(&[None, Some("application/json".to_string()), Some("text/plain".to_string())]).clone(),
          body,
        }
      }
    };
    let t = gen_transport(rng, c24);
    reqs.push(Req { kind, t, fs_fault: None });
  }
  // C23: always end with a commit so that the queue model is observed
  // swarm: one case in ten carries a large NDJSON upload (a thousand and more
  // small documents in one /add), valid or with an invalid line late in the body
  let mut max_body = MAX_BODY;
  if !with_conc && rng.chance(1, 10) {
    let giant = rng.chance(1, 5);
    max_body = if giant { 4 * 1024 * 1024 } else { 512 * 1024 };
    let n = if giant {
      1 + rng.below(4) as u32
    } else if rng.chance(1, 4) {
      20 + rng.below(200) as u32
    } else {
      1000 + rng.below(900) as u32
    };
    let at = (reqs.len() - rng.usize(reqs.len().min(4))).max(1);
    reqs.insert(
      at.min(reqs.len()),
      Req {
        kind: ReqKind::AddLarge {
          n,
          first_ver: 6_000_000,
          bad: if giant { 4 } else { *rng.pick(&[0u8, 0, 1, 2, 3]) },
        },
        t: Transport {
          content_length: rng.chance(1, 2),
          chunks: if rng.chance(1, 2) { vec![4000] } else { Vec::new() },
          ..Default::default()
        },
        fs_fault: None,
      },
    );
  }
  // swarm: in one case of five the disk misbehaves: a storage primitive fails
  // (or, for C24, panics) while some of the requests are being served
  if !with_conc && rng.chance(1, 5) {
    for r in reqs.iter_mut() {
      if !matches!(r.kind, ReqKind::Init { .. } | ReqKind::Healthz | ReqKind::Raw { .. } | ReqKind::AddLarge { .. }) && r.t.stall_after.is_none() && rng.chance(1, 3) {
        r.fs_fault = Some(FsFault {
          at: { let hi = if rng.chance(1, 2) { 8 } else { 60 }; rng.below(hi) as u32 },
          kind: if c24 && rng.chance(1, 3) { "panic".into() } else { "eio".into() },
        });
      }
    }
  }
  reqs.push(Req {
    kind: ReqKind::Commit,
    t: Transport {
      content_length: true,
      ..Default::default()
    },
    fs_fault: None,
  });
  let conc = if with_conc {
    let k = 2 + rng.usize(5);
    let mut creqs = Vec::new();
    for _ in 0..k {
      // add, bulk, delete, commit, search, stats, refresh, compact
      let kind = match rng.weighted(&[28, 18, 12, 26, 8, 3, 2, 4]) {
        0 => {
          let inv = rng.chance(1, 4);
          ReqKind::Add {
            docs: gen_docs(rng, &ids, &mut ver, inv, true),
          }
        }
        1 => {
          let inv = rng.chance(1, 4);
          ReqKind::Bulk {
            docs: gen_docs(rng, &ids, &mut ver, inv, false),
            malformed: false,
          }
        }
        2 => {
          let plain: Vec<String> = ids.iter().filter(|i| i.trim().len() == i.len() && !i.chars().any(|c| c.is_control())).cloned().collect();
          ReqKind::Delete {
            ids: (0..1 + rng.usize(2)).map(|_| rng.pick(&plain).clone()).collect(),
          }
        }
        3 => ReqKind::Commit,
        4 => ReqKind::Search { variant: 0 },
        5 => ReqKind::Stats,
        6 => ReqKind::Refresh,
        _ => ReqKind::Compact,
      };
      let faulty = c24 && rng.chance(1, 2);
      let t = gen_transport(rng, faulty);
      creqs.push(Req { kind, t, fs_fault: None });
    }
    let mut cancel: Vec<Option<u64>> = vec![None; k];
    if rng.chance(1, 4) {
      let i = rng.usize(k);
      cancel[i] = Some(rng.below(30));
    }
    Some(ConcSpec {
      reqs: creqs,
      width: 2 + rng.below(3) as u8,
      seed: rng.next(),
      schedule: Vec::new(),
      cancel,
    })
  } else {
    None
  };
  HttpCase { max_body, reqs, conc }
}

struct Built {
  method: &'static str,
  path: String,
  content_type: Option<String>,
  body: Vec<u8>,
}

fn leak(s: &str) -> &'static str {
  match s {
    "GET" => "GET",
    "POST" => "POST",
    "PUT" => "PUT",
    "DELETE" => "DELETE",
    _ => "POST",
  }
}

fn build(kind: &ReqKind) -> Built {
  let json_ct = Some("application/json".to_string());
  match kind {
    ReqKind::Init { bad } => {
      let body = if *bad {
        "{\"doc_id_field\": \"a.b\", \"text_fields\": [], \"keyword_fields\": [], \"numeric_fields\": []}".to_string()
      } else {
        serde_json::to_string(&schema(Profile::Basic)).unwrap()
      };
      Built {
        method: "POST",
        path: "/init".into(),
        content_type: json_ct,
        body: body.into_bytes(),
      }
    }
    ReqKind::Add { docs } => {
      let mut body = String::new();
      for (i, d) in docs.iter().enumerate() {
        body.push_str(&doc_json(d));
        body.push('\n');
        if i == 0 {
          body.push('\n'); // blank lines are allowed
        }
      }
      Built {
        method: "POST",
        path: "/add".into(),
        content_type: Some("application/x-ndjson".into()),
        body: body.into_bytes(),
      }
    }
    ReqKind::AddLarge { n, first_ver, bad } => {
      let mut body = String::new();
      for i in 0..*n {
        if *bad == 3 && i == *n / 2 {
          body.push_str("{\"_id\": \"broken\", \"body\": \n");
        }
        body.push_str(&doc_json(&DocSpec::Valid {
          id: format!("L{}", i),
          ver: large_ver(*first_ver, i, *bad),
        }));
        body.push('\n');
      }
      match bad {
        1 => body.push_str("{\"_id\": \"tail\", \"body\": \n"),
        2 => body.push_str("{\"_id\": \"tail\", \"body\": \"alpha\", \"n\": \"not a number\"}\n"),
        _ => {}
      }
      Built {
        method: "POST",
        path: "/add".into(),
        content_type: Some("application/x-ndjson".into()),
        body: body.into_bytes(),
      }
    }
    ReqKind::Bulk { docs, malformed } => {
      let items: Vec<String> = docs.iter().map(doc_json).collect();
      let mut body = format!("{{\"docs\": [{}]}}", items.join(", "));
      if *malformed {
        let mut cut = body.len() / 2;
        while !body.is_char_boundary(cut) {
          cut -= 1;
        }
        body.truncate(cut);
      }
      Built {
        method: "POST",
        path: "/bulk".into(),
        content_type: json_ct,
        body: body.into_bytes(),
      }
    }
    ReqKind::Delete { ids } => Built {
      method: "POST",
      path: "/delete".into(),
      content_type: json_ct,
      body: serde_json::to_vec(&json!({ "ids": ids })).unwrap(),
    },
    ReqKind::Commit => Built {
      method: "POST",
      path: "/commit".into(),
      content_type: None,
      body: Vec::new(),
    },
    ReqKind::Refresh => Built {
      method: "POST",
      path: "/refresh".into(),
      content_type: None,
      body: Vec::new(),
    },
    ReqKind::Compact => Built {
      method: "POST",
      path: "/compact".into(),
      content_type: None,
      body: Vec::new(),
    },
    ReqKind::Stats => Built {
      method: "GET",
      path: "/stats".into(),
      content_type: None,
      body: Vec::new(),
    },
    ReqKind::Inspect => Built {
      method: "GET",
      path: "/inspect".into(),
      content_type: None,
      body: Vec::new(),
    },
    ReqKind::Healthz => Built {
      method: "GET",
      path: "/healthz".into(),
      content_type: None,
      body: Vec::new(),
    },
    ReqKind::Search { variant } => {
      let body = match variant {
        0 => json!({"query": {"type": "match_all"}, "limit": 100000, "return_stored": true}).to_string(),
        1 => json!({"query": {"type": "match_all"}, "limit": 0, "return_stored": true}).to_string(),
        2 => "{\"query\": {\"type\": \"match_all\"}, \"limit\": ".to_string(),
        3 => json!({"query": {"type": "term", "field": "body", "value": "alpha"}, "limit": 10, "return_stored": false}).to_string(),
        4 => json!({"query": {"type": "match_all"}, "filter": {"KeywordEq": {"field": "nosuch", "value": "x"}}, "limit": 10, "return_stored": false}).to_string(),
        5 => json!({"query": {"type": "match_all"}, "limit": 2, "cursor": "zz-not-hex", "return_stored": false}).to_string(),
        6 => json!({"query": {"type": "match_all"}, "limit": 2, "return_stored": false, "aggs": {"a": {"type": "terms", "field": "body", "size": 3}}}).to_string(),
        v => {
          // a long name mixing 1-, 2-, 3- and 4-byte characters at every alignment
          let v = *v as usize - 7;
          let pad = v % 4;
          let unit = ["\u{00e9}", "\u{4e16}", "\u{1f600}", "\u{00e9}\u{4e16}"][(v / 4) % 4];
          let reps = [90usize, 200, 400, 1200][(v / 16) % 4];
          let name = format!("{}{}", "x".repeat(pad), unit.repeat(reps));
          match (v / 64) % 4 {
            0 => json!({"query": {"type": "match_all"}, "limit": 5, "return_stored": false, "sort": [{"field": name, "order": "asc"}]}).to_string(),
            1 => json!({"query": {"type": "match_all"}, "filter": {"KeywordEq": {"field": name, "value": "x"}}, "limit": 5, "return_stored": false}).to_string(),
            2 => json!({"query": {"type": "match_all"}, "limit": 5, "return_stored": false, "aggs": {"a": {"type": "terms", "field": name, "size": 3}}}).to_string(),
            _ => json!({"query": {"type": "term", "field": name, "value": "x"}, "limit": 5, "return_stored": false}).to_string(),
          }
        }
      };
      Built {
        method: "POST",
        path: "/search".into(),
        content_type: json_ct,
        body: body.into_bytes(),
      }
    }
    ReqKind::SearchBig { n } => {
      let huge = 10_000_000_000_000u64;
      let body = match n % 14 {
        0 => json!({"query": {"type": "match_all"}, "limit": 5, "return_stored": false, "aggs": {"a": {"type": "top_hits", "size": huge}}}),
        1 => json!({"query": {"type": "match_all"}, "limit": 5, "return_stored": false, "aggs": {"a": {"type": "top_hits", "size": u64::MAX, "from": 1}}}),
        2 => json!({"query": {"type": "match_all"}, "limit": huge, "return_stored": true}),
        3 => json!({"query": {"type": "match_all"}, "limit": u64::MAX, "return_stored": false}),
        4 => json!({"query": {"type": "match_all"}, "limit": 5, "return_stored": false, "aggs": {"a": {"type": "terms", "field": "tag", "size": huge, "shard_size": u64::MAX}}}),
        5 => json!({"query": {"type": "term", "field": "body", "value": "alpha"}, "limit": 5, "candidate_size": u64::MAX, "return_stored": false}),
        6 => json!({"query": {"type": "match_all"}, "limit": 5, "return_stored": false, "rescore": {"window_size": u64::MAX, "query": {"type": "match_all"}}}),
        7 => json!({"query": {"type": "match_all"}, "limit": 5, "return_stored": false, "collapse": {"field": "tag", "inner_hits": {"size": u64::MAX, "from": u64::MAX}}}),
        8 => json!({"query": {"type": "term", "field": "body", "value": "alpha"}, "limit": 5, "return_stored": true, "highlight": {"fields": {"body": {"fragment_size": u64::MAX, "number_of_fragments": u64::MAX}}}}),
        9 => json!({"query": {"type": "term", "field": "body", "value": "alpha"}, "limit": 5, "return_stored": false, "execution": "bmw", "bmw_block_size": if n % 28 < 14 { 0u64 } else { u64::MAX }}),
        10 => json!({"query": {"type": "match_all"}, "limit": 5, "return_stored": false, "aggs": {"a": {"type": "composite", "size": u64::MAX, "sources": [{"type": "terms", "name": "t", "field": "tag"}]}}}),
        11 => json!({"query": {"type": "term", "field": "body", "value": "alpha"}, "limit": 5, "return_stored": false, "fuzzy": {"max_edits": 2, "prefix_length": 0, "max_expansions": u64::MAX, "min_length": 0}}),
        12 => json!({"query": {"type": "match_all"}, "limit": 5, "return_stored": false, "cursor": "f".repeat(8000)}),
        _ => {
          let mut q = json!({"type": "match_all"});
          for _ in 0..50 {
            q = json!({"type": "bool", "must": [q]});
          }
          json!({"query": q, "limit": 5, "return_stored": false})
        }
      };
      Built {
        method: "POST",
        path: "/search".into(),
        content_type: json_ct,
        body: body.to_string().into_bytes(),
      }
    }
    ReqKind::Raw { method, path, content_type, body } => Built {
      method: leak(method),
      path: path.clone(),
      content_type: content_type.clone(),
      body: body.clone().into_bytes(),
    },
  }
}

fn make_request(b: &Built, t: &Transport) -> Request<Body> {
  let mut body = b.body.clone();
  if t.pad > 0 {
    // filler that keeps NDJSON and JSON bodies syntactically alive
    body.extend(std::iter::repeat(b' ').take(t.pad as usize));
  }
  let total = body.len();
  let mut chunks: Vec<Bytes> = Vec::new();
  if t.chunks.is_empty() {
    chunks.push(Bytes::from(body));
  } else {
    let mut off = 0;
    let mut i = 0;
    while off < total {
      let n = (t.chunks[i % t.chunks.len()] as usize).max(1).min(total - off);
      chunks.push(Bytes::copy_from_slice(&body[off..off + n]));
      off += n;
      i += 1;
    }
  }
  let mut builder = Request::builder().method(b.method).uri(&b.path);
  if let Some(ct) = &b.content_type {
    builder = builder.header("content-type", ct);
  }
  if t.content_length && t.stall_after.is_none() && t.break_after.is_none() {
    builder = builder.header("content-length", total.to_string());
  }
  let body = if let Some(k) = t.break_after {
    let mut items: Vec<Result<Bytes, std::io::Error>> = chunks.into_iter().take(k as usize).map(Ok).collect();
    items.push(Err(std::io::Error::new(std::io::ErrorKind::ConnectionReset, "connection reset by peer")));
    Body::from_stream(stream::iter(items))
  } else if let Some(k) = t.stall_after {
    let head: Vec<Result<Bytes, std::io::Error>> = chunks.into_iter().take(k as usize).map(Ok).collect();
    Body::from_stream(stream::iter(head).chain(stream::pending()))
  } else if t.chunks.is_empty() && t.content_length {
    Body::from(chunks.into_iter().next().unwrap_or_default())
  } else {
    let all: Vec<Result<Bytes, std::io::Error>> = chunks.into_iter().map(Ok).collect();
    Body::from_stream(stream::iter(all))
  };
  builder.body(body).expect("request")
}

struct Resp {
  status: StatusCode,
  body: Vec<u8>,
  sim_elapsed: Duration,
}

async fn send(router: &axum::Router, req: Request<Body>) -> Result<Resp, String> {
  let start = tokio::time::Instant::now();
  let mut svc = router.clone();
  let fut = svc.call(req);
  let resp = match tokio::time::timeout(Duration::from_secs(300), fut).await {
    Ok(Ok(r)) => r,
    Ok(Err(_)) => return Err("service error".into()),
    Err(_) => return Err("no response within 300 simulated seconds".into()),
  };
  let status = resp.status();
  let body = match tokio::time::timeout(Duration::from_secs(300), axum::body::to_bytes(resp.into_body(), 256 << 20)).await {
    Ok(Ok(b)) => b.to_vec(),
    Ok(Err(e)) => return Err(format!("response body failed: {}", e)),
    Err(_) => return Err("response body did not complete within 300 simulated seconds".into()),
  };
  Ok(Resp {
    status,
    body,
    sim_elapsed: start.elapsed(),
  })
}

async fn send_owned(router: axum::Router, req: Request<Body>) -> Result<Resp, String> {
  send(&router, req).await
}

fn error_shape_ok(body: &[u8]) -> bool {
  match serde_json::from_slice::<Value>(body) {
    Ok(v) => v.pointer("/error/type").map(|t| t.is_string()).unwrap_or(false) && v.pointer("/error/reason").map(|t| t.is_string()).unwrap_or(false),
    Err(_) => false,
  }
}

fn success_shape_ok(kind: &ReqKind, body: &[u8]) -> bool {
  let Ok(v) = serde_json::from_slice::<Value>(body) else { return false };
  match kind {
    ReqKind::Init { .. } => v.get("created").map(|x| x.is_boolean()).unwrap_or(false),
    ReqKind::Add { .. } | ReqKind::AddLarge { .. } | ReqKind::Bulk { .. } | ReqKind::Delete { .. } => v.get("queued").map(|x| x.is_u64()).unwrap_or(false),
    ReqKind::Commit => v.get("committed") == Some(&json!(true)),
    ReqKind::Refresh => v.get("refreshed") == Some(&json!(true)),
    ReqKind::Compact => v.get("compacted") == Some(&json!(true)),
    ReqKind::Stats => v.get("documents").map(|x| x.is_u64()).unwrap_or(false) && v.get("segments").map(|x| x.is_u64()).unwrap_or(false),
    ReqKind::Inspect => v.pointer("/manifest/segments").map(|x| x.is_array()).unwrap_or(false),
    ReqKind::Healthz => v.get("status") == Some(&json!("ok")),
    ReqKind::Search { .. } | ReqKind::SearchBig { .. } => v.get("hits").map(|x| x.is_array()).unwrap_or(false) && v.get("total_hits_estimate").map(|x| x.is_u64()).unwrap_or(false),
    ReqKind::Raw { .. } => true,
  }
}

fn kind_name(k: &ReqKind) -> &'static str {
  match k {
    ReqKind::Init { .. } => "init",
    ReqKind::Add { .. } => "add",
    ReqKind::AddLarge { .. } => "add_large",
    ReqKind::Bulk { .. } => "bulk",
    ReqKind::Delete { .. } => "delete",
    ReqKind::Commit => "commit",
    ReqKind::Refresh => "refresh",
    ReqKind::Compact => "compact",
    ReqKind::Stats => "stats",
    ReqKind::Inspect => "inspect",
    ReqKind::Healthz => "healthz",
    ReqKind::Search { .. } => "search",
    ReqKind::SearchBig { .. } => "search_big",
    ReqKind::Raw { .. } => "raw",
  }
}

fn contents_from_search(body: &[u8]) -> Result<Contents, String> {
  let v: Value = serde_json::from_slice(body).map_err(|e| e.to_string())?;
  let mut out = Contents::new();
  for h in v.get("hits").and_then(|h| h.as_array()).ok_or("no hits array")? {
    let id = h.get("doc_id").and_then(|x| x.as_str()).ok_or("hit without doc_id")?.to_string();
    let stored = h.get("fields").cloned().unwrap_or(Value::Null);
    let ver = stored.get("n").and_then(|n| n.as_u64()).ok_or_else(|| format!("hit {} lacks version", id))?;
    if out.insert(id.clone(), Version { ver, stored }).is_some() {
      return Err(format!("duplicate id {}", id));
    }
  }
  Ok(out)
}

struct RunOut {
  violations: Vec<Violation>,
  trace: Vec<String>,
  /// executor choices of the concurrent block (for pinning a replay)
  choices: Vec<u32>,
}

type Alt = (Vec<QOp>, Contents);

fn alt_key(a: &Alt) -> String {
  format!("{:?}#{:?}", a.0.iter().map(|o| o.short()).collect::<Vec<_>>(), contents_short(&a.1))
}

fn dedup_alts(alts: &mut Vec<Alt>) {
  let mut seen = std::collections::BTreeSet::new();
  alts.retain(|a| seen.insert(alt_key(a)));
  alts.truncate(64);
}

async fn run_async(case: &HttpCase, dir: &Path, pfs: &passfs::PassFs, stats: &mut Stats) -> RunOut {
  let mut out = RunOut {
    violations: Vec::new(),
    trace: Vec::new(),
    choices: Vec::new(),
  };
  let args = searchlite_http::ServeArgs::parse_from([
    "searchlite-http",
    "--index",
    dir.to_str().unwrap(),
    "--max-body-bytes",
    &case.max_body.to_string(),
    "--request-timeout-secs",
    "30",
    "--max-concurrency",
    "4",
  ]);
  let router = match searchlite_http::verif_router(&args).await {
    Ok(r) => r,
    Err(e) => {
      out.violations.push(Violation::new(&["C23", "C24"], "bootstrap-failed", "bootstrap", 0, format!("{:#}", e)));
      return out;
    }
  };
  let mut initialised = false;
  // the queue model; after a storage fault there may be several states the
  // service is allowed to be in (a failed request may have taken effect or not)
  let mut alts: Vec<Alt> = vec![(Vec::new(), Contents::new())];
  let mut grams: Vec<String> = Vec::new();
  for (step, req) in case.reqs.iter().enumerate() {
    let built = build(&req.kind);
    let t = &req.t;
    let total_len = built.body.len() + t.pad as usize;
    let oversize = total_len > case.max_body as usize;
    let stalled = t.stall_after.is_some();
    let name = kind_name(&req.kind);
    stats.inc(&format!("op.{}", name));
    if !t.chunks.is_empty() {
      stats.inc("fault.chunk_split");
    }
    if stalled {
      stats.inc("fault.stall");
    }
    let broken = t.break_after.is_some();
    if broken {
      stats.inc("fault.connection_reset_mid_body");
    }
    if oversize {
      stats.inc(if t.content_length { "fault.oversize_declared" } else { "fault.oversize_streamed" });
    }
    let request = make_request(&built, t);
    if let Some(f) = &req.fs_fault {
      pfs.arm(f.at as u64, if f.kind == "panic" { passfs::Kind::Panic } else { passfs::Kind::Eio });
    }
    let sent = send(&router, request).await;
    let fired = if req.fs_fault.is_some() { pfs.disarm().0 } else { None };
    let faulted = fired.is_some();
    if let Some((k, prim)) = &fired {
      stats.inc(&format!("fault.storage_{}", req.fs_fault.as_ref().map(|f| f.kind.as_str()).unwrap_or("eio")));
      stats.sites.insert(format!("{}:{}@{}", name, req.fs_fault.as_ref().map(|f| f.kind.as_str()).unwrap_or("eio"), prim));
      out.trace.push(format!("{} storage fault at primitive {} ({})", step, k, prim));
    }
    let resp = match sent {
      Ok(r) => r,
      Err(e) => {
        out.violations.push(Violation::new(&["C24"], "no-response", name, step, format!("{} {}: {}", built.method, built.path, e)));
        return out;
      }
    };
    stats.add("sim_millis", resp.sim_elapsed.as_millis() as u64);
    let st = resp.status;
    out.trace.push(format!("{} {} {} -> {}", step, built.method, built.path, st.as_u16()));
    grams.push(format!("{}:{}", name, st.as_u16()));
    let body_txt = String::from_utf8_lossy(&resp.body).chars().take(200).collect::<String>();
    let what = format!(
      "{} {} (chunks {:?}, content-length {}, {} bytes{}{}{})",
      built.method,
      built.path,
      t.chunks,
      t.content_length && !stalled,
      total_len,
      if t.break_after.is_some() { ", connection breaks mid-body" } else { "" },
      if stalled { ", client stalls" } else { "" },
      if oversize { ", over the body limit" } else { "" }
    );
    // ---------------- C24: a well-formed response, always
    if st.is_success() {
      if !success_shape_ok(&req.kind, &resp.body) {
        out
          .violations
          .push(Violation::new(&["C24"], "malformed-success-body", name, step, format!("{} -> {} with body `{}`", what, st, body_txt)));
      }
    } else if !error_shape_ok(&resp.body) {
      out.violations.push(Violation::new(
        &["C24"],
        "malformed-error-body",
        &format!("{}:{}", if matches!(req.kind, ReqKind::Raw { .. }) { "unrouted" } else { name }, st.as_u16()),
        step,
        format!("{} -> {} with body `{}` (expected {{\"error\":{{\"type\",\"reason\"}}}})", what, st, body_txt),
      ));
    }
    if st.is_server_error() && !stalled && !faulted {
      out
        .violations
        .push(Violation::new(&["C24"], "server-error", name, step, format!("{} -> {} `{}`", what, st, body_txt)));
    }
    // expected status classes known by construction
    let needs_index = !matches!(req.kind, ReqKind::Init { .. } | ReqKind::Healthz | ReqKind::Raw { .. });
    let mut expect: Option<(&str, Vec<u16>)> = None;
    let body_valid = match &req.kind {
      ReqKind::Add { docs } => docs.iter().all(is_valid),
      ReqKind::Bulk { docs, malformed } => !*malformed && docs.iter().all(is_valid),
      ReqKind::AddLarge { bad, .. } => *bad == 0 || *bad == 4,
      ReqKind::Search { variant } => *variant != 2,
      _ => true,
    };
    let reads_body = !matches!(req.kind, ReqKind::Commit | ReqKind::Refresh | ReqKind::Compact | ReqKind::Stats | ReqKind::Inspect | ReqKind::Healthz | ReqKind::Raw { .. });
    if broken && reads_body {
      // the body ends in a transport error: the request must still be answered,
      // with the structured error body (shape is checked above) and never 2xx
      // for a write whose body did not arrive completely
      if !(matches!(req.kind, ReqKind::Add { .. }) && !initialised) {
        expect = Some(("body broke off -> 4xx", vec![400, 408, 413, 422, 499]));
        stats.inc("probe.broken_body_checked");
      }
    } else if stalled && total_len > 0 && reads_body {
      // handlers that read the body wait for it; /add before /init answers 404
      // first, and a streaming /add may meet a complete invalid line earlier
      if !(matches!(req.kind, ReqKind::Add { .. }) && !initialised) {
        let streaming_invalid = matches!(req.kind, ReqKind::Add { .. }) && !body_valid;
        expect = Some(("stalled body -> 504 after the 30 s timeout", if streaming_invalid { vec![400, 422, 504] } else { vec![504] }));
        if st.as_u16() == 504 {
          if resp.sim_elapsed < Duration::from_secs(29) || resp.sim_elapsed > Duration::from_secs(40) {
            out.violations.push(Violation::new(
              &["C24"],
              "timeout-not-at-deadline",
              name,
              step,
              format!("{} answered 504 after {:?} simulated", what, resp.sim_elapsed),
            ));
          }
          stats.inc("probe.stall_hit_simulated_timeout");
        }
      }
    } else if oversize && reads_body {
      if t.content_length || initialised || !matches!(req.kind, ReqKind::Add { .. }) {
        // an invalid part of the body may be met before the limit is reached
        expect = Some(("oversized body -> 413", if body_valid || t.content_length { vec![413] } else { vec![400, 413, 422] }));
        stats.inc("probe.oversize_checked");
      }
    } else if !stalled && !oversize && !(broken && reads_body) {
      expect = match &req.kind {
        ReqKind::Healthz => Some(("healthz", vec![200])),
        ReqKind::Init { bad: true } => Some(("bad schema -> 4xx", vec![400, 422])),
        ReqKind::Init { bad: false } => {
          if initialised {
            Some(("second init -> 409", vec![409]))
          } else {
            Some(("first init -> 200", vec![200]))
          }
        }
        ReqKind::Raw { path, .. } => {
          if path == "/nope" || path == "/search/extra" || path == "/" {
            Some(("unknown path -> 404", vec![404]))
          } else {
            Some(("wrong method -> 405", vec![405]))
          }
        }
        ReqKind::Add { docs } => {
          if !initialised {
            Some(("no index -> 404", vec![404]))
          } else if docs.iter().all(is_valid) {
            if docs.iter().any(has_odd_id) {
              Some(("valid add with an unusual id -> 200 (or a clean 4xx)", vec![200, 400, 422]))
            } else {
              Some(("valid add -> 200", vec![200]))
            }
          } else {
            Some(("invalid document -> 4xx", vec![400, 422]))
          }
        }
        ReqKind::AddLarge { bad, .. } => {
          stats.inc("probe.large_uploads");
          if !initialised {
            Some(("no index -> 404", vec![404]))
          } else if *bad == 0 || *bad == 4 {
            Some(("valid large add -> 200", vec![200]))
          } else {
            Some(("invalid document in a large add -> 4xx", vec![400, 422]))
          }
        }
        ReqKind::Bulk { docs, malformed } => {
          if *malformed || !docs.iter().all(is_valid) {
            Some(("invalid bulk -> 4xx", vec![400, 422]))
          } else if !initialised {
            Some(("no index -> 404", vec![404]))
          } else if docs.iter().any(has_odd_id) {
            Some(("valid bulk with an unusual id -> 200 (or a clean 4xx)", vec![200, 400, 422]))
          } else {
            Some(("valid bulk -> 200", vec![200]))
          }
        }
        ReqKind::Delete { ids } => {
          let bad = ids.iter().any(|i| i.trim().is_empty() || i.trim().len() != i.len() || i.chars().any(|c| c.is_control()));
          if bad {
            Some(("invalid ids -> 4xx", vec![400, 422]))
          } else if !initialised {
            Some(("no index -> 404", vec![404]))
          } else {
            Some(("valid delete -> 200", vec![200]))
          }
        }
        ReqKind::Search { variant } => match variant {
          1 | 2 => Some(("invalid search -> 4xx", vec![400, 422])),
          0 | 3 => {
            if initialised {
              Some(("valid search -> 200", vec![200]))
            } else {
              Some(("no index -> 404", vec![404]))
            }
          }
          _ => {
            if initialised {
              None // 200 or 4xx, never 5xx (checked above)
            } else {
              Some(("no index -> 404", vec![404]))
            }
          }
        },
        ReqKind::SearchBig { .. } => {
          stats.inc("probe.extreme_search_parameters");
          if initialised {
            None // 200 or 4xx, never 5xx, never the end of the process
          } else {
            Some(("no index -> 404 (or a 4xx for the request itself)", vec![400, 404, 422]))
          }
        }
        ReqKind::Commit | ReqKind::Refresh | ReqKind::Compact | ReqKind::Stats | ReqKind::Inspect => {
          if initialised {
            Some(("ok", vec![200]))
          } else {
            Some(("no index -> 404", vec![404]))
          }
        }
      };
    }
    let _ = needs_index;
    if faulted {
      // the storage failed underneath this request: any well-formed answer is
      // acceptable (its shape was checked above); what it did is judged below
      expect = None;
      stats.inc("probe.answered_despite_storage_fault");
    }
    if let Some((why, codes)) = &expect {
      if !codes.contains(&st.as_u16()) {
        let class = if why.contains("413") {
          "oversize-not-413"
        } else if why.contains("504") {
          "stall-not-504"
        } else {
          "unexpected-status"
        };
        let props: &[&'static str] = if matches!(req.kind, ReqKind::Add { .. } | ReqKind::Bulk { .. } | ReqKind::Delete { .. } | ReqKind::Commit) && class == "unexpected-status" {
          &["C24", "C23"]
        } else {
          &["C24"]
        };
        out.violations.push(Violation::new(
          props,
          class,
          &format!("{}:{}", name, st.as_u16()),
          step,
          format!("{} -> {} `{}`; expected {:?} ({})", what, st, body_txt, codes, why),
        ));
      }
    }
    // ---------------- C23: queue model
    let own_ops: Vec<QOp> = match &req.kind {
      ReqKind::Add { docs } | ReqKind::Bulk { docs, .. } => docs
        .iter()
        .filter_map(|d| match d {
          DocSpec::Valid { id, ver } => {
            let doc = make_doc(Profile::Basic, id, *ver);
            Some(QOp::Add {
              id: id.clone(),
              v: Version {
                ver: *ver,
                stored: stored_projection(Profile::Basic, &doc),
              },
            })
          }
          _ => None,
        })
        .collect(),
      ReqKind::Delete { ids } => ids.iter().map(|id| QOp::Del { id: id.clone() }).collect(),
      ReqKind::AddLarge { n, first_ver, bad } => (0..*n)
        .map(|i| {
          let id = format!("L{}", i);
          let ver = large_ver(*first_ver, i, *bad);
          let doc = make_doc(Profile::Basic, &id, ver);
          QOp::Add {
            id,
            v: Version {
              ver,
              stored: stored_projection(Profile::Basic, &doc),
            },
          }
        })
        .collect(),
      _ => Vec::new(),
    };
    match &req.kind {
      ReqKind::Init { bad: false } if st.is_success() => initialised = true,
      ReqKind::AddLarge { n, bad, .. } if st.is_success() => {
        let queued = serde_json::from_slice::<Value>(&resp.body).ok().and_then(|v| v.get("queued").and_then(|q| q.as_u64())).unwrap_or(u64::MAX);
        if *bad != 0 && *bad != 4 {
          out.violations.push(Violation::new(
            &["C23", "C24"],
            "invalid-document-acknowledged",
            name,
            step,
            format!("{} containing an invalid document was acknowledged with {} `{}`", what, st, body_txt),
          ));
        } else if queued != *n as u64 {
          out.violations.push(Violation::new(&["C23"], "queued-count-wrong", name, step, format!("{} acknowledged {} documents, sent {}", what, queued, n)));
        }
        for a in alts.iter_mut() {
          a.0.extend(own_ops.iter().cloned());
        }
      }
      ReqKind::Add { docs } | ReqKind::Bulk { docs, .. } if st.is_success() => {
        let n = docs.iter().filter(|d| is_valid(d)).count();
        let queued = serde_json::from_slice::<Value>(&resp.body).ok().and_then(|v| v.get("queued").and_then(|q| q.as_u64())).unwrap_or(u64::MAX);
        if !docs.iter().all(is_valid) {
          out.violations.push(Violation::new(
            &["C23", "C24"],
            "invalid-document-acknowledged",
            name,
            step,
            format!("{} containing an invalid document was acknowledged with {} `{}`", what, st, body_txt),
          ));
        } else if queued != n as u64 {
          out.violations.push(Violation::new(&["C23"], "queued-count-wrong", name, step, format!("{} acknowledged {} documents, sent {}", what, queued, n)));
        }
        for a in alts.iter_mut() {
          a.0.extend(own_ops.iter().cloned());
        }
      }
      ReqKind::Delete { .. } if st.is_success() => {
        for a in alts.iter_mut() {
          a.0.extend(own_ops.iter().cloned());
        }
      }
      ReqKind::Add { .. } | ReqKind::Bulk { .. } | ReqKind::Delete { .. } if faulted && initialised => {
        // a write that failed on a storage error: un-acknowledged, any prefix of
        // its own operations may have been queued - but nothing acknowledged
        // earlier may be lost
        let mut next = Vec::new();
        for a in alts.iter() {
          for j in 0..=own_ops.len() {
            let mut q = a.0.clone();
            q.extend(own_ops[..j].iter().cloned());
            next.push((q, a.1.clone()));
          }
        }
        alts = next;
        dedup_alts(&mut alts);
      }
      ReqKind::Commit if !st.is_success() && faulted && initialised => {
        // a commit that reported a failure: not applied, or (the failure came
        // after publication) applied
        let mut next = alts.clone();
        for a in alts.iter() {
          next.push((Vec::new(), fold(&a.1, &a.0)));
        }
        alts = next;
        dedup_alts(&mut alts);
      }
      ReqKind::Commit if st.is_success() => {
        for a in alts.iter_mut() {
          a.1 = fold(&a.1, &a.0);
          a.0.clear();
        }
        dedup_alts(&mut alts);
        // observe through the API
        let _ = send(&router, make_request(&build(&ReqKind::Refresh), &Transport { content_length: true, ..Default::default() })).await;
        let sr = send(&router, make_request(&build(&ReqKind::Search { variant: 0 }), &Transport { content_length: true, ..Default::default() })).await;
        match sr {
          Ok(r) if r.status.is_success() => match contents_from_search(&r.body) {
            Ok(c) if alts.iter().any(|a| a.1 == c) => {
              stats.inc("checks.contents_after_commit");
              if alts.len() > 1 {
                stats.inc("probe.alternatives_resolved_by_observation");
              }
              alts.retain(|a| a.1 == c);
            }
            Ok(c) => {
              out.violations.push(Violation::new(
                &["C23"],
                "acknowledged-write-lost",
                "commit",
                step,
                format!(
                  "after /commit the index holds {:?}, but the acknowledged writes add up to {}; requests so far: {}",
                  contents_short(&c),
                  alts.iter().map(|a| format!("{:?}", contents_short(&a.1))).collect::<Vec<_>>().join(" or "),
                  out.trace.join(" | ")
                ),
              ));
              return out;
            }
            Err(e) => {
              out.violations.push(Violation::new(&["C23"], "acknowledged-write-lost", "commit", step, format!("/search after commit: {}", e)));
              return out;
            }
          },
          Ok(r) => {
            out
              .violations
              .push(Violation::new(&["C23", "C24"], "search-after-commit-failed", "search", step, format!("/search match_all -> {}", r.status)));
            return out;
          }
          Err(e) => {
            out.violations.push(Violation::new(&["C24"], "no-response", "search", step, e));
            return out;
          }
        }
        let sr = send(&router, make_request(&build(&ReqKind::Stats), &Transport { content_length: true, ..Default::default() })).await;
        if let Ok(r) = sr {
          let docs = serde_json::from_slice::<Value>(&r.body).ok().and_then(|v| v.get("documents").and_then(|d| d.as_u64()));
          if !alts.iter().any(|a| docs == Some(a.1.len() as u64)) {
            out.violations.push(Violation::new(
              &["C23"],
              "stats-mismatch",
              "stats",
              step,
              format!("/stats.documents = {:?}, acknowledged and committed documents = {}", docs, alts[0].1.len()),
            ));
          }
        }
      }
      _ => {}
    }
    // ---------------- the server stays up
    if step % 3 == 2 || !out.violations.is_empty() {
      match send(&router, make_request(&build(&ReqKind::Healthz), &Transport { content_length: true, ..Default::default() })).await {
        Ok(r) if r.status == StatusCode::OK => stats.inc("checks.healthz"),
        Ok(r) => out.violations.push(Violation::new(&["C24"], "server-down", "healthz", step, format!("/healthz -> {} after {}", r.status, what))),
        Err(e) => out.violations.push(Violation::new(&["C24"], "server-down", "healthz", step, e)),
      }
    }
    if out.violations.len() > 6 {
      break;
    }
  }
  if let Some(spec) = &case.conc {
    if initialised && out.violations.is_empty() {
      run_conc(case, spec, &router, &mut alts, stats, &mut out, &mut grams).await;
    }
  }
  for w in grams.windows(3) {
    stats.fingerprints.insert(hash_bytes(11, w.join(">").as_bytes()));
  }
  stats.add("steps", case.reqs.len() as u64);
  stats.inc("evaluations");
  out
}

/// The concurrent block: see conc.rs. Continues the queue model of the
/// sequential part.
#[allow(clippy::too_many_arguments)]
async fn run_conc(case: &HttpCase, spec: &ConcSpec, router: &axum::Router, alts: &mut Vec<Alt>, stats: &mut Stats, out: &mut RunOut, grams: &mut Vec<String>) {
  use conc::{HEvent, HOp};
  let n = spec.reqs.len();
  let sched = conc::Sched::new();
  let hooks: std::sync::Arc<dyn searchlite_http::verif_rt::RtHooks> = std::sync::Arc::new(sched.clone());
  searchlite_http::verif_rt::set_thread_hooks(Some(hooks));
  let mut chooser = conc::Chooser {
    fixed: spec.schedule.clone(),
    pos: 0,
    rng: Rng::new(spec.seed),
  };
  let builts: Vec<Built> = spec.reqs.iter().map(|r| build(&r.kind)).collect();
  let mut make = |i: usize| -> conc::ReqFuture<Result<Resp, String>> { Box::pin(send_owned(router.clone(), make_request(&builts[i], &spec.reqs[i].t))) };
  let res = conc::run_block(n, spec.width.max(1) as usize, &mut make, &spec.cancel, &sched, &mut chooser, 20_000).await;
  searchlite_http::verif_rt::set_thread_hooks(None);
  stats.inc("probe.concurrent_blocks");
  stats.add("probe.blocking_task_switches", res.switches);
  stats.add("sim_steps_concurrent", res.steps);
  if res.max_live_tasks >= 2 {
    stats.inc("probe.blocking_tasks_overlapped");
  }
  out.choices = res.choices.clone();
  out.trace.extend(res.trace.iter().map(|t| format!("c {}", t)));
  let sched_fp: Vec<String> = res.trace.iter().map(|t| t.split_once(' ').map(|x| x.1.to_string()).unwrap_or_default()).collect();
  stats.fingerprints.insert(hash_bytes(13, sched_fp.join(">").as_bytes()));
  if res.budget_exhausted {
    out.violations.push(Violation::new(
      &["C24"],
      "no-response",
      "concurrent-block-stuck",
      case.reqs.len(),
      format!("the concurrent block made no progress within {} executor steps: {}", res.steps, res.trace.iter().rev().take(12).cloned().collect::<Vec<_>>().join(" | ")),
    ));
    return;
  }
  let mut events: Vec<HEvent> = Vec::new();
  let describe = |i: usize| -> String { format!("{} {}", builts[i].method, builts[i].path) };
  for i in 0..n {
    let req = &spec.reqs[i];
    let name = kind_name(&req.kind);
    stats.inc(&format!("op.{}", name));
    let t = &req.t;
    let total_len = builts[i].body.len() + t.pad as usize;
    let oversize = total_len > case.max_body as usize;
    let stalled = t.stall_after.is_some();
    let broken = t.break_after.is_some();
    let valid_ops = |docs: &Vec<DocSpec>| -> Vec<QOp> {
      docs
        .iter()
        .filter_map(|d| match d {
          DocSpec::Valid { id, ver } => {
            let doc = make_doc(Profile::Basic, id, *ver);
            Some(QOp::Add {
              id: id.clone(),
              v: Version {
                ver: *ver,
                stored: stored_projection(Profile::Basic, &doc),
              },
            })
          }
          _ => None,
        })
        .collect()
    };
    let tm = &res.timing[i];
    match &res.outputs[i] {
      None => {
        // the client went away; the request may or may not have taken effect
        stats.inc("fault.client_gone");
        let op = match &req.kind {
          ReqKind::Add { docs } | ReqKind::Bulk { docs, .. } if docs.iter().all(is_valid) => Some(HOp::MaybeWrite(valid_ops(docs))),
          ReqKind::Delete { ids } => Some(HOp::MaybeWrite(ids.iter().map(|id| QOp::Del { id: id.clone() }).collect())),
          ReqKind::Commit => Some(HOp::MaybeCommit),
          _ => None,
        };
        if let Some(op) = op {
          events.push(HEvent {
            op,
            invoke: tm.invoke,
            ret: u64::MAX,
            label: format!("{} (client gone)", describe(i)),
          });
        }
        grams.push(format!("{}:gone", name));
      }
      Some(Err(e)) => {
        out.violations.push(Violation::new(&["C24"], "no-response", name, case.reqs.len() + i, format!("concurrent {}: {}", describe(i), e)));
      }
      Some(Ok(resp)) => {
        let st = resp.status;
        grams.push(format!("{}:{}", name, st.as_u16()));
        stats.add("sim_millis", resp.sim_elapsed.as_millis() as u64);
        let body_txt = String::from_utf8_lossy(&resp.body).chars().take(200).collect::<String>();
        if st.is_success() {
          if !success_shape_ok(&req.kind, &resp.body) {
            out.violations.push(Violation::new(&["C24"], "malformed-success-body", name, case.reqs.len() + i, format!("concurrent {} -> {} with body `{}`", describe(i), st, body_txt)));
          }
        } else if !error_shape_ok(&resp.body) {
          out.violations.push(Violation::new(&["C24"], "malformed-error-body", &format!("{}:{}", name, st.as_u16()), case.reqs.len() + i, format!("concurrent {} -> {} with body `{}`", describe(i), st, body_txt)));
        }
        if st.is_server_error() && !stalled {
          out.violations.push(Violation::new(&["C24"], "server-error", name, case.reqs.len() + i, format!("concurrent {} -> {} `{}`", describe(i), st, body_txt)));
        }
        let clean = !stalled && !broken && !oversize;
        let op = match &req.kind {
          ReqKind::Add { docs } | ReqKind::Bulk { docs, .. } => {
            let all_valid = docs.iter().all(is_valid);
            if st.is_success() {
              if !all_valid {
                out.violations.push(Violation::new(&["C23", "C24"], "invalid-document-acknowledged", name, case.reqs.len() + i, format!("concurrent {} containing an invalid document was acknowledged with {}", describe(i), st)));
              }
              HOp::Write(valid_ops(docs))
            } else {
              if clean && all_valid && !docs.iter().any(has_odd_id) {
                out.violations.push(Violation::new(&["C24", "C23"], "unexpected-status", &format!("{}:{}", name, st.as_u16()), case.reqs.len() + i, format!("concurrent valid {} -> {} `{}`", describe(i), st, body_txt)));
              }
              if st.is_server_error() {
                HOp::MaybeWrite(valid_ops(docs))
              } else {
                HOp::Nop
              }
            }
          }
          ReqKind::Delete { ids } => {
            if st.is_success() {
              HOp::Write(ids.iter().map(|id| QOp::Del { id: id.clone() }).collect())
            } else {
              if clean {
                out.violations.push(Violation::new(&["C24", "C23"], "unexpected-status", &format!("{}:{}", name, st.as_u16()), case.reqs.len() + i, format!("concurrent valid {} -> {} `{}`", describe(i), st, body_txt)));
              }
              HOp::Nop
            }
          }
          ReqKind::Commit => {
            if st.is_success() {
              HOp::Commit
            } else {
              // (a padded body over the limit is refused with 413 before the handler runs)
              if clean {
                out.violations.push(Violation::new(&["C24", "C23"], "unexpected-status", &format!("{}:{}", name, st.as_u16()), case.reqs.len() + i, format!("concurrent {} -> {} `{}`", describe(i), st, body_txt)));
              }
              if st.is_server_error() {
                HOp::MaybeCommit
              } else {
                HOp::Nop
              }
            }
          }
          ReqKind::Search { variant: 0 } if st.is_success() => match contents_from_search(&resp.body) {
            Ok(c) => HOp::Read(c),
            Err(e) => {
              out.violations.push(Violation::new(&["C23"], "acknowledged-write-lost", "search", case.reqs.len() + i, format!("concurrent /search: {}", e)));
              HOp::Nop
            }
          },
          ReqKind::Stats if st.is_success() => match serde_json::from_slice::<Value>(&resp.body).ok().and_then(|v| v.get("documents").and_then(|d| d.as_u64())) {
            Some(nd) => HOp::Count(nd),
            None => HOp::Nop,
          },
          _ => {
            if clean && !st.is_success() && matches!(req.kind, ReqKind::Search { variant: 0 } | ReqKind::Stats | ReqKind::Refresh | ReqKind::Compact) {
              out.violations.push(Violation::new(&["C24"], "unexpected-status", &format!("{}:{}", name, st.as_u16()), case.reqs.len() + i, format!("concurrent {} -> {} `{}`", describe(i), st, body_txt)));
            }
            HOp::Nop
          }
        };
        events.push(HEvent {
          op,
          invoke: tm.invoke,
          ret: tm.ret.unwrap_or(u64::MAX),
          label: format!("{} -> {}", describe(i), st.as_u16()),
        });
      }
    }
  }
  if !out.violations.is_empty() {
    return;
  }
  // ---- the block is over: commit, refresh, observe
  let plain = Transport {
    content_length: true,
    ..Default::default()
  };
  let mut stamp = res.steps + 10;
  let mut push_final = |op: HOp, label: &str, events: &mut Vec<HEvent>| {
    events.push(HEvent {
      op,
      invoke: stamp,
      ret: stamp + 1,
      label: label.to_string(),
    });
    stamp += 2;
  };
  match send(router, make_request(&build(&ReqKind::Commit), &plain)).await {
    Ok(r) if r.status.is_success() => push_final(HOp::Commit, "final POST /commit -> 200", &mut events),
    Ok(r) => {
      out.violations.push(Violation::new(&["C23", "C24"], "unexpected-status", &format!("commit:{}", r.status.as_u16()), case.reqs.len() + n, format!("/commit after the concurrent block -> {}", r.status)));
      return;
    }
    Err(e) => {
      out.violations.push(Violation::new(&["C24"], "no-response", "commit", case.reqs.len() + n, e));
      return;
    }
  }
  let _ = send(router, make_request(&build(&ReqKind::Refresh), &plain)).await;
  let seen = match send(router, make_request(&build(&ReqKind::Search { variant: 0 }), &plain)).await {
    Ok(r) if r.status.is_success() => match contents_from_search(&r.body) {
      Ok(c) => c,
      Err(e) => {
        out.violations.push(Violation::new(&["C23"], "acknowledged-write-lost", "commit", case.reqs.len() + n, format!("/search after the concurrent block: {}", e)));
        return;
      }
    },
    Ok(r) => {
      out.violations.push(Violation::new(&["C23", "C24"], "search-after-commit-failed", "search", case.reqs.len() + n, format!("/search match_all -> {}", r.status)));
      return;
    }
    Err(e) => {
      out.violations.push(Violation::new(&["C24"], "no-response", "search", case.reqs.len() + n, e));
      return;
    }
  };
  push_final(HOp::Read(seen.clone()), "final POST /search", &mut events);
  if let Ok(r) = send(router, make_request(&build(&ReqKind::Stats), &plain)).await {
    if let Some(nd) = serde_json::from_slice::<Value>(&r.body).ok().and_then(|v| v.get("documents").and_then(|d| d.as_u64())) {
      push_final(HOp::Count(nd), "final GET /stats", &mut events);
    }
  }
  let mut explored = 0u64;
  let ok = alts.iter().any(|a| conc::linearizable(&a.0, &a.1, &events, &mut explored));
  stats.add("probe.linearization_states", explored);
  let (queue, committed) = (&alts[0].0.clone(), &alts[0].1.clone());
  if ok {
    stats.inc("checks.concurrent_history_linearizable");
    *alts = vec![(Vec::new(), seen)];
  } else {
    let hist: Vec<String> = events.iter().map(|e| format!("[{}..{}] {}{}", e.invoke, if e.ret == u64::MAX { "-".to_string() } else { e.ret.to_string() }, e.label, match &e.op {
      HOp::Write(ops) | HOp::MaybeWrite(ops) => format!(" {{{}}}", ops.iter().map(|o| o.short()).collect::<Vec<_>>().join(",")),
      HOp::Read(c) => format!(" saw {:?}", contents_short(c)),
      HOp::Count(k) => format!(" documents={}", k),
      _ => String::new(),
    })).collect();
    out.violations.push(Violation::new(
      &["C23"],
      "acknowledged-write-lost",
      "concurrent",
      case.reqs.len() + n,
      format!(
        "no order of the acknowledged concurrent requests explains the observed results; committed before the block {:?}, queued {:?}; history (executor steps invoke..return): {}; schedule: {}",
        contents_short(committed),
        queue.iter().map(|o| o.short()).collect::<Vec<_>>(),
        hist.join("; "),
        res.trace.join(" | ")
      ),
    ));
  }
}

fn run_case(case: &HttpCase, wroot: &Path, stats: &mut Stats) -> RunOut {
  // a private scratch directory on tmpfs, removed afterwards
  let tag = wroot.file_name().map(|s| s.to_string_lossy().to_string()).unwrap_or_else(|| "w".into());
  let dir = PathBuf::from(format!("/dev/shm/verif-e3-{}/{}/idx", std::process::id(), tag));
  let _ = std::fs::remove_dir_all(&dir);
  let _ = std::fs::create_dir_all(dir.parent().unwrap());
  let rt = tokio::runtime::Builder::new_current_thread().enable_all().start_paused(true).build().expect("runtime");
  let pfs = passfs::PassFs::new();
  let mount_at = dir.parent().unwrap().to_path_buf();
  searchlite_core::verif::fs::mount(&mount_at, std::sync::Arc::new(pfs.clone()));
  let res = catch_unwind(AssertUnwindSafe(|| rt.block_on(run_async(case, &dir, &pfs, stats))));
  drop(rt);
  searchlite_core::verif::fs::unmount(&mount_at);
  let _ = std::fs::remove_dir_all(dir.parent().unwrap());
  match res {
    Ok(r) => r,
    Err(p) => RunOut {
      choices: Vec::new(),
      violations: vec![Violation::new(
        &["C24"],
        "no-response",
        "panic",
        0,
        format!("a handler panicked on the request path (the connection would be closed without a response): {}", sim::work::panic_msg(p)),
      )],
      trace: Vec::new(),
    },
  }
}

struct HttpEngine {
  c24: bool,
}

impl Engine for HttpEngine {
  type Case = HttpCase;
  fn name(&self) -> &'static str {
    "e3.http"
  }
  fn level(&self) -> &'static str {
    "exploration"
  }
  fn generate(&self, rng: &mut Rng, thorough: bool) -> HttpCase {
    gen_case(rng, self.c24, thorough)
  }
  fn execute(&self, case: &HttpCase, wroot: &Path, stats: &mut Stats) -> (Vec<Violation>, Vec<String>) {
    // breadcrumb: should the process die inside this case (abort, stack
    // overflow, failed allocation), the parent finds the case here
    if let Ok(dir) = std::env::var("VERIF_E3_CRUMBS") {
      let tag = wroot.file_name().map(|s| s.to_string_lossy().to_string()).unwrap_or_else(|| "w".into());
      let crumb = json!({
        "engine": self.name(),
        "property": if self.c24 { "C24" } else { "C23" },
        "case": serde_json::to_value(case).unwrap_or(Value::Null),
        "violation": {"class": "server-down", "site": "process-abort", "properties": [if self.c24 { "C24" } else { "C23" }], "step": 0,
          "detail": "the process serving the requests died (abort, stack overflow or failed allocation) while executing this case"},
      });
      let _ = std::fs::write(format!("{}/{}.json", dir, tag), serde_json::to_vec(&crumb).unwrap_or_default());
    }
    let r = run_case(case, wroot, stats);
    (r.violations, r.trace)
  }
  fn pin(&self, case: &HttpCase, _target: &Violation, wroot: &Path) -> HttpCase {
    // make the schedule of the concurrent block explicit
    let mut c = case.clone();
    if case.conc.is_some() {
      let mut st = Stats::default();
      let r = run_case(case, wroot, &mut st);
      if let Some(spec) = c.conc.as_mut() {
        spec.schedule = r.choices;
      }
    }
    c
  }
  fn shrink(&self, case: &HttpCase) -> Vec<HttpCase> {
    let mut out = Vec::new();
    if let Some(spec) = &case.conc {
      let mut c = case.clone();
      c.conc = None;
      out.push(c);
      for i in 0..spec.reqs.len() {
        if spec.reqs.len() > 1 {
          let mut c = case.clone();
          let sp = c.conc.as_mut().unwrap();
          sp.reqs.remove(i);
          if i < sp.cancel.len() {
            sp.cancel.remove(i);
          }
          out.push(c);
        }
        if spec.reqs[i].t != Transport::default() {
          let mut c = case.clone();
          c.conc.as_mut().unwrap().reqs[i].t = Transport {
            content_length: true,
            ..Default::default()
          };
          out.push(c);
        }
      }
      if spec.cancel.iter().any(|c| c.is_some()) {
        let mut c = case.clone();
        c.conc.as_mut().unwrap().cancel = vec![None; spec.reqs.len()];
        out.push(c);
      }
      // fewer context switches: drop single choices from the explicit schedule
      if !spec.schedule.is_empty() && spec.schedule.len() <= 200 {
        for i in 0..spec.schedule.len() {
          let mut c = case.clone();
          c.conc.as_mut().unwrap().schedule.remove(i);
          out.push(c);
        }
      }
    }
    let n = case.reqs.len();
    let mut chunk = (n / 2).max(1);
    loop {
      let mut i = 0;
      while i + chunk <= n {
        let mut c = case.clone();
        c.reqs.drain(i..i + chunk);
        out.push(c);
        i += chunk;
      }
      if chunk == 1 {
        break;
      }
      chunk /= 2;
    }
    for i in 0..n {
      if case.reqs[i].t != Transport::default() && !(case.reqs[i].t.content_length && case.reqs[i].t.chunks.is_empty() && case.reqs[i].t.pad == 0 && case.reqs[i].t.stall_after.is_none()) {
        let mut c = case.clone();
        c.reqs[i].t = Transport {
          content_length: true,
          ..Default::default()
        };
        out.push(c);
      }
      match &case.reqs[i].kind {
        ReqKind::Add { docs } | ReqKind::Bulk { docs, .. } if docs.len() > 1 => {
          for j in 0..docs.len() {
            let mut c = case.clone();
            match &mut c.reqs[i].kind {
              ReqKind::Add { docs } | ReqKind::Bulk { docs, .. } => {
                docs.remove(j);
              }
              _ => {}
            }
            out.push(c);
          }
        }
        _ => {}
      }
    }
    out
  }
  fn sample(&self, case: &HttpCase) -> Value {
    json!({
      "max_body_bytes": case.max_body,
      "requests": case.reqs.iter().map(|r| {
        let b = build(&r.kind);
        json!({"request": format!("{} {}", b.method, b.path), "kind": r.kind, "transport": r.t})
      }).collect::<Vec<_>>(),
    })
  }
  fn rule(&self) -> String {
    "seeded request histories (/init, valid and invalid /add NDJSON, /bulk, /delete, /commit, /refresh, /compact, /search, /stats, /inspect, unknown paths/methods, wrong content types, searches with extreme numeric parameters, NDJSON uploads of a thousand and more documents with an invalid line late in the body, a document of more than 1 MiB) handed to the real axum Router as a tower Service on a current-thread tokio runtime with the clock paused; transport faults: body split at arbitrary byte boundaries, client stall (simulated clock runs to the 30 s TimeoutLayer), connection reset mid-body, bodies over the limit with and without Content-Length; a third of the cases end in a block of 2-6 concurrent requests driven by a seeded executor (request futures polled only after their waker fired; blocking tasks parked at spawn, at outermost core lock boundaries and on a contended writer lock, one thread runs at a time; a client may go away mid-request); a fifth of the sequential cases inject storage faults under the service (one primitive of the index directory fails with an I/O error or panics while a request is served); the engine runs in a child process so that a request that kills the process is reported; oracle: queue model (set of allowed states after un-acknowledged outcomes; linearizability search for concurrent blocks) + response-shape/status rules; distinct = distinct <request kind:status> 3-grams plus distinct concurrent schedules".into()
  }
  fn assumptions(&self) -> Vec<String> {
    vec![
      "the router is driven as a tower Service, so hyper's connection handling is not exercised; a dropped request future stands for a client that went away".into(),
      "the index lives on a real tmpfs directory; storage faults are single failing primitives (error before effect, or panic), no crash is part of these properties".into(),
      "invalid documents are invalid in ways rejected when queued (malformed JSON, non-object, missing/blank/non-string id, wrong value type, null in a non-nullable field) - not unknown fields".into(),
      "a write or commit that was not acknowledged (storage fault, client gone) may or may not have taken effect: for a write any prefix of its own operations, for a commit all or nothing; acknowledged operations must never be lost".into(),
      "simulated time only moves when no request future is runnable and no blocking task is alive (tokio's paused clock); work done on threads tokio does not know of would let it run early".into(),
    ]
  }
  fn real_vs_stub(&self) -> Value {
    json!({
      "real": "searchlite-http router, handlers, middleware stack (timeout, concurrency limit, body limit, 413 mapping), axum extractors, tokio runtime + blocking pool (real pool threads, released one at a time), searchlite-core on a tmpfs directory through FsStorage",
      "simulated": "TCP/hyper connection handling (the router is called as a Service), wall clock (tokio paused clock), the clients and their transport behaviour, the order in which concurrent requests and blocking tasks make progress (seeded executor), storage failures (pass-through VFS with one failing primitive)",
    })
  }
  fn budget(&self, thorough: bool) -> (u64, f64) {
    if thorough {
      (2_000_000, 900.0)
    } else {
      (200_000, 40.0)
    }
  }
  fn probes(&self) -> Vec<&'static str> {
    if self.c24 {
      vec![
        "fault.chunk_split",
        "fault.stall",
        "fault.oversize_declared",
        "fault.oversize_streamed",
        "fault.connection_reset_mid_body",
        "fault.storage_eio",
        "fault.storage_panic",
        "fault.client_gone",
        "probe.stall_hit_simulated_timeout",
        "probe.oversize_checked",
        "probe.broken_body_checked",
        "probe.extreme_search_parameters",
        "probe.answered_despite_storage_fault",
        "probe.concurrent_blocks",
        "probe.blocking_tasks_overlapped",
        "checks.healthz",
      ]
    } else {
      vec![
        "fault.chunk_split",
        "fault.storage_eio",
        "fault.client_gone",
        "checks.contents_after_commit",
        "checks.concurrent_history_linearizable",
        "probe.concurrent_blocks",
        "probe.blocking_tasks_overlapped",
        "probe.blocking_task_switches",
        "probe.alternatives_resolved_by_observation",
        "probe.large_uploads",
        "op.add",
        "op.bulk",
        "op.delete",
        "op.commit",
      ]
    }
  }
}

/// The engine runs in a child process: a request that takes the whole process
/// down (abort, stack overflow, failed allocation) must become a reported
/// violation, not the death of the check. Returns the exit code.
fn supervise() -> i32 {
  use std::process::Command;
  let argv: Vec<String> = std::env::args().skip(1).collect();
  let exe = match std::env::current_exe() {
    Ok(e) => e,
    Err(e) => {
      eprintln!("harness error: cannot find own executable: {}", e);
      return 2;
    }
  };
  let crumbs = format!("/dev/shm/verif-e3-crumbs-{}", std::process::id());
  let _ = std::fs::remove_dir_all(&crumbs);
  let _ = std::fs::create_dir_all(&crumbs);
  let run_child_io = |args: &[String], with_crumbs: bool, quiet: bool| -> Option<i32> {
    let mut c = Command::new(&exe);
    c.args(args).env("VERIF_E3_CHILD", "1").env("RUST_BACKTRACE", "0");
    if quiet {
      c.stdout(std::process::Stdio::null()).stderr(std::process::Stdio::null());
    }
    if with_crumbs {
      c.env("VERIF_E3_CRUMBS", &crumbs);
    } else {
      c.env_remove("VERIF_E3_CRUMBS");
    }
    if !quiet {
      c.stderr(std::process::Stdio::piped());
    }
    let mut child = match c.spawn() {
      Ok(ch) => ch,
      Err(e) => {
        eprintln!("harness error: cannot start the engine process: {}", e);
        return Some(2);
      }
    };
    // the core reports a failed log sync in a writer's Drop on stderr; under
    // injected storage faults that is expected noise
    let fwd = child.stderr.take().map(|err| {
      std::thread::spawn(move || {
        use std::io::BufRead;
        for line in std::io::BufReader::new(err).lines().map_while(Result::ok) {
          if !line.starts_with("IndexWriter: failed to sync WAL on drop") {
            eprintln!("{}", line);
          }
        }
      })
    });
    let st = child.wait();
    if let Some(h) = fwd {
      let _ = h.join();
    }
    match st {
      Ok(st) => st.code().filter(|c| *c < 128),
      Err(e) => {
        eprintln!("harness error: cannot wait for the engine process: {}", e);
        Some(2)
      }
    }
  };
  let run_child = |args: &[String], with_crumbs: bool| -> Option<i32> { run_child_io(args, with_crumbs, false) };
  let args = parse_args();
  let code = if let Some(path) = &args.replay {
    match run_child(&argv, false) {
      Some(c) => c,
      None => {
        let file: Value = std::fs::read(path).ok().and_then(|d| serde_json::from_slice(&d).ok()).unwrap_or(Value::Null);
        if file.pointer("/violation/site").and_then(|s| s.as_str()) == Some("process-abort") {
          println!("replay reproduces: property={} class=server-down site=process-abort", args.property);
          println!("  the process serving the requests died while executing the recorded case");
          println!("VIOLATION property={} replay={}", args.property, path.display());
          1
        } else {
          eprintln!("harness error: the engine process died while replaying {}", path.display());
          2
        }
      }
    }
  } else {
    match run_child(&argv, true) {
      Some(c) => c,
      None => {
        // the engine process died: which of the cases in flight kills it?
        let mut culprit: Option<(String, Value)> = None;

        let mut names: Vec<_> = std::fs::read_dir(&crumbs).map(|d| d.filter_map(|e| e.ok()).map(|e| e.path()).collect()).unwrap_or_else(|_| Vec::new());
        names.sort();
        for p in names {
          let a: Vec<String> = vec!["http".into(), "--property".into(), args.property.clone(), "--replay".into(), p.to_string_lossy().to_string()];
          if run_child_io(&a, false, true).is_none() {
            if let Some(v) = std::fs::read(&p).ok().and_then(|d| serde_json::from_slice::<Value>(&d).ok()) {
              culprit = Some((p.to_string_lossy().to_string(), v));
              break;
            }
          }
        }
        // delta-debug the culprit, one child process per candidate
        if let Some((_, v)) = culprit.as_mut() {
          if let Ok(mut best) = serde_json::from_value::<HttpCase>(v["case"].clone()) {
            let engine = HttpEngine { c24: args.property == "C24" };
            let tmp = format!("{}/shrink.json", crumbs);
            let started = std::time::Instant::now();
            let mut improved = true;
            while improved && started.elapsed().as_secs() < 60 {
              improved = false;
              for cand in engine.shrink(&best) {
                if started.elapsed().as_secs() >= 60 {
                  break;
                }
                let mut f = v.clone();
                f["case"] = serde_json::to_value(&cand).unwrap_or(Value::Null);
                if std::fs::write(&tmp, serde_json::to_vec(&f).unwrap_or_default()).is_err() {
                  break;
                }
                let a: Vec<String> = vec!["http".into(), "--property".into(), args.property.clone(), "--replay".into(), tmp.clone()];
                if run_child_io(&a, false, true).is_none() {
                  best = cand;
                  improved = true;
                  break;
                }
              }
            }
            v["case"] = serde_json::to_value(&best).unwrap_or(Value::Null);
          }
        }
        match culprit {
          Some((_, mut v)) => {
            let path = sim::kit::replay_path(&args.property, "server_down_process_abort", args.seed, 0);
            v["property"] = json!(args.property);
            v["seed"] = json!(args.seed);
            sim::kit::write_json(&path, &v);
            println!("violation: class=server-down site=process-abort step=0");
            println!("  the process serving the requests died (abort, stack overflow or failed allocation) while executing the recorded case; a live server would be down for every client");
            println!("VIOLATION property={} replay={}", args.property, path.display());
            1
          }
          None => {
            eprintln!("harness error: the engine process died, but none of the cases in flight kills a fresh process on its own");
            2
          }
        }
      }
    }
  };
  let _ = std::fs::remove_dir_all(&crumbs);
  code
}

fn main() {
  if std::env::var("VERIF_E3_CHILD").is_err() {
    std::process::exit(supervise());
  }
  std::panic::set_hook(Box::new(|_| {}));
  let args = parse_args();
  let code = match (args.mode.as_str(), args.property.as_str()) {
    ("http", "C23") => drive(&HttpEngine { c24: false }, &args),
    ("http", "C24") => drive(&HttpEngine { c24: true }, &args),
    (m, p) => {
      eprintln!("harness error: e3http does not decide mode={} property={}", m, p);
      2
    }
  };
  std::process::exit(code);
}

#[allow(dead_code)]
fn _unused(_: BTreeMap<u8, u8>) {}
