//! Baton scheduler: real OS threads, exactly one of which runs at any time.
//! Yield points: lock acquire/release (verif::sync hooks), every SimFs
//! primitive (yield hook), harness call boundaries. The next thread is drawn
//! from the run's PRNG (or taken from a recorded schedule), so one seed is one
//! exactly repeatable interleaving.

use std::cell::Cell;
use std::collections::HashMap;
use std::sync::{Arc, Condvar, Mutex};

use searchlite_core::verif::sync::{LockKind, SchedHooks};
use serde::{Deserialize, Serialize};

use crate::rng::Rng;

thread_local! {
  static TID: Cell<Option<usize>> = const { Cell::new(None) };
}

pub fn current_tid() -> Option<usize> {
  TID.with(|t| t.get())
}

#[derive(Clone, Copy, Debug, PartialEq, Eq, Serialize, Deserialize)]
#[serde(rename_all = "snake_case")]
pub enum Policy {
  /// uniform over enabled threads at every yield point
  Random,
  /// keep running the current thread with probability 7/8
  Sticky,
  /// PCT-style: fixed random priorities, a few priority-change points
  Pct,
}

#[derive(Clone, Debug, PartialEq)]
enum TStatus {
  NotStarted,
  Runnable,
  Waiting { lock: usize, kind: LockKind },
  Finished,
}

#[derive(Default, Debug)]
struct LockState {
  writer: Option<usize>,
  readers: Vec<usize>,
}

impl LockState {
  fn available(&self, kind: LockKind) -> bool {
    match kind {
      LockKind::Mutex | LockKind::Write => self.writer.is_none() && self.readers.is_empty(),
      LockKind::Read => self.writer.is_none(),
    }
  }
}

pub struct SchedState {
  current: Option<usize>,
  threads: Vec<TStatus>,
  locks: HashMap<usize, LockState>,
  pub schedule: Vec<u8>,
  forced: Option<Vec<u8>>,
  rng: Rng,
  policy: Policy,
  priorities: Vec<u32>,
  change_points: Vec<u64>,
  pub steps: u64,
  budget: u64,
  pub aborted: Option<String>,
  pub events: u64,
  pub context_switches: u64,
  pub lock_waits: u64,
  pub forced_misses: u64,
  /// lock ids in first-seen order (stable names for traces)
  lock_names: Vec<usize>,
  pub trace: Vec<String>,
  pub yields_by_kind: HashMap<&'static str, u64>,
}

pub struct Sched {
  m: Mutex<SchedState>,
  /// one condition variable per simulated thread: only the chosen one is woken
  cvs: Vec<Condvar>,
}

/// Payload used to unwind threads of an aborted run.
pub struct SchedAbort;

impl Sched {
  pub fn new(nthreads: usize, seed: u64, policy: Policy, budget: u64, forced: Option<Vec<u8>>) -> Arc<Sched> {
    let mut rng = Rng::new(seed);
    let mut priorities: Vec<u32> = (0..nthreads as u32).map(|i| i + 10).collect();
    // shuffle
    for i in (1..priorities.len()).rev() {
      let j = rng.usize(i + 1);
      priorities.swap(i, j);
    }
    let change_points: Vec<u64> = (0..3).map(|_| rng.below(400)).collect();
    Arc::new(Sched {
      m: Mutex::new(SchedState {
        current: None,
        threads: vec![TStatus::NotStarted; nthreads],
        locks: HashMap::new(),
        schedule: Vec::new(),
        forced,
        rng,
        policy,
        priorities,
        change_points,
        steps: 0,
        budget,
        aborted: None,
        events: 0,
        context_switches: 0,
        lock_waits: 0,
        forced_misses: 0,
        lock_names: Vec::new(),
        trace: Vec::new(),
        yields_by_kind: HashMap::new(),
      }),
      cvs: (0..nthreads.max(1)).map(|_| Condvar::new()).collect(),
    })
  }

  pub fn with<R>(&self, f: impl FnOnce(&mut SchedState) -> R) -> R {
    let mut g = self.m.lock().unwrap_or_else(|e| e.into_inner());
    f(&mut g)
  }

  /// Next event sequence number (history stamps).
  pub fn stamp(&self) -> u64 {
    self.with(|s| {
      s.events += 1;
      s.events
    })
  }

  fn enabled(s: &SchedState) -> Vec<usize> {
    let mut out = Vec::new();
    for (i, t) in s.threads.iter().enumerate() {
      match t {
        TStatus::Runnable | TStatus::NotStarted => out.push(i),
        TStatus::Waiting { lock, kind } => {
          if s.locks.get(lock).map(|l| l.available(*kind)).unwrap_or(true) {
            out.push(i);
          }
        }
        TStatus::Finished => {}
      }
    }
    out
  }

  /// Decide who runs next. Must be called with the state locked by the
  /// thread that currently holds the baton (or by the starter).
  fn pick(s: &mut SchedState, me: Option<usize>) {
    if s.aborted.is_some() {
      s.current = None;
      return;
    }
    let enabled = Self::enabled(s);
    if enabled.is_empty() {
      if s.threads.iter().any(|t| *t != TStatus::Finished) {
        s.aborted = Some("deadlock: no thread can make progress".into());
      }
      s.current = None;
      return;
    }
    s.steps += 1;
    if s.steps > s.budget {
      s.aborted = Some(format!("step budget of {} exceeded (livelock or runaway)", s.budget));
      s.current = None;
      return;
    }
    let idx = s.schedule.len();
    let mut choice: Option<usize> = None;
    if let Some(f) = &s.forced {
      if let Some(c) = f.get(idx) {
        if enabled.contains(&(*c as usize)) {
          choice = Some(*c as usize);
        } else {
          s.forced_misses += 1;
        }
      }
      if choice.is_none() {
        // soft replay: prefer to keep running the same thread
        choice = match me {
          Some(m) if enabled.contains(&m) => Some(m),
          _ => Some(enabled[0]),
        };
      }
    }
    let next = match choice {
      Some(c) => c,
      None => match s.policy {
        Policy::Random => enabled[s.rng.usize(enabled.len())],
        Policy::Sticky => match me {
          Some(m) if enabled.contains(&m) && !s.rng.chance(1, 8) => m,
          _ => enabled[s.rng.usize(enabled.len())],
        },
        Policy::Pct => {
          if s.change_points.contains(&s.steps) {
            if let Some(m) = me {
              s.priorities[m] = s.steps as u32 % 7; // drop below everyone
            }
          }
          *enabled.iter().max_by_key(|t| s.priorities[**t]).unwrap()
        }
      },
    };
    if Some(next) != me {
      s.context_switches += 1;
    }
    s.schedule.push(next as u8);
    s.current = Some(next);
  }

  /// Wake whoever holds the baton now (everybody when the run was aborted).
  fn wake(&self, g: &SchedState) {
    match (g.aborted.is_some(), g.current) {
      (false, Some(t)) => self.cvs[t].notify_one(),
      _ => {
        for cv in &self.cvs {
          cv.notify_all();
        }
      }
    }
  }

  fn wait_for_baton<'a>(&'a self, mut g: std::sync::MutexGuard<'a, SchedState>, me: usize) -> std::sync::MutexGuard<'a, SchedState> {
    loop {
      if g.aborted.is_some() {
        if std::thread::panicking() {
          // already unwinding (a destructor reached a yield point): run free,
          // the run's results are discarded anyway
          return g;
        }
        drop(g);
        std::panic::resume_unwind(Box::new(SchedAbort));
      }
      if g.current == Some(me) {
        return g;
      }
      g = self.cvs[me].wait(g).unwrap_or_else(|e| e.into_inner());
    }
  }

  /// Called first by every simulated thread.
  pub fn thread_start(&self, me: usize) {
    TID.with(|t| t.set(Some(me)));
    let g = self.m.lock().unwrap_or_else(|e| e.into_inner());
    let mut g = self.wait_for_baton(g, me);
    g.threads[me] = TStatus::Runnable;
  }

  /// Called last by every simulated thread (also after a caught panic).
  pub fn thread_finish(&self, me: usize) {
    let mut g = self.m.lock().unwrap_or_else(|e| e.into_inner());
    g.threads[me] = TStatus::Finished;
    // a finished thread holds no locks (guards dropped); be safe:
    for l in g.locks.values_mut() {
      if l.writer == Some(me) {
        l.writer = None;
      }
      l.readers.retain(|r| *r != me);
    }
    if g.current == Some(me) || g.current.is_none() {
      Self::pick(&mut g, None);
    }
    TID.with(|t| t.set(None));
    self.wake(&g);
    drop(g);
  }

  /// Hand the first baton out (called by the harness after spawning).
  pub fn start(&self) {
    let mut g = self.m.lock().unwrap_or_else(|e| e.into_inner());
    Self::pick(&mut g, None);
    self.wake(&g);
    drop(g);
  }

  pub fn yield_now(&self, kind: &'static str) {
    let Some(me) = current_tid() else { return };
    let mut g = self.m.lock().unwrap_or_else(|e| e.into_inner());
    if g.current != Some(me) {
      // not under this scheduler's control (e.g. unwinding after abort)
      return;
    }
    *g.yields_by_kind.entry(kind).or_insert(0) += 1;
    Self::pick(&mut g, Some(me));
    if g.current != Some(me) {
      self.wake(&g);
    }
    let _g = self.wait_for_baton(g, me);
  }

  fn lock_name(s: &mut SchedState, lock: usize) -> usize {
    if let Some(i) = s.lock_names.iter().position(|l| *l == lock) {
      i
    } else {
      s.lock_names.push(lock);
      s.lock_names.len() - 1
    }
  }
}

pub struct Hooks {
  pub sched: Arc<Sched>,
}

impl SchedHooks for Hooks {
  fn before_acquire(&self, lock: usize, kind: LockKind) {
    let Some(me) = current_tid() else { return };
    let sched = &self.sched;
    // a scheduling point before every acquisition
    sched.yield_now("lock");
    let mut g = sched.m.lock().unwrap_or_else(|e| e.into_inner());
    if g.current != Some(me) {
      return;
    }
    loop {
      let free = g.locks.get(&lock).map(|l| l.available(kind)).unwrap_or(true);
      if free {
        let name = Sched::lock_name(&mut g, lock);
        let l = g.locks.entry(lock).or_default();
        match kind {
          LockKind::Mutex | LockKind::Write => l.writer = Some(me),
          LockKind::Read => l.readers.push(me),
        }
        g.threads[me] = TStatus::Runnable;
        let step = g.steps;
        g.trace.push(format!("{} t{} acquire L{} {:?}", step, me, name, kind));
        return;
      }
      g.lock_waits += 1;
      g.threads[me] = TStatus::Waiting { lock, kind };
      Sched::pick(&mut g, Some(me));
      sched.wake(&g);
      g = sched.wait_for_baton(g, me);
    }
  }

  fn released(&self, lock: usize, kind: LockKind) {
    let Some(me) = current_tid() else { return };
    let sched = &self.sched;
    {
      let mut g = sched.m.lock().unwrap_or_else(|e| e.into_inner());
      let name = Sched::lock_name(&mut g, lock);
      if let Some(l) = g.locks.get_mut(&lock) {
        match kind {
          LockKind::Mutex | LockKind::Write => {
            if l.writer == Some(me) {
              l.writer = None;
            }
          }
          LockKind::Read => {
            if let Some(p) = l.readers.iter().position(|r| *r == me) {
              l.readers.remove(p);
            }
          }
        }
      }
      let step = g.steps;
      g.trace.push(format!("{} t{} release L{} {:?}", step, me, name, kind));
      if g.current != Some(me) || g.aborted.is_some() {
        return;
      }
    }
    if !std::thread::panicking() {
      sched.yield_now("unlock");
    }
  }
}
