//! E1 `model`: fault-free histories vs. the reference model (C04), with
//! compaction probes (C14) and the relocate operation + path monitor (C28).

use std::collections::{BTreeMap, BTreeSet};
use std::path::{Path, PathBuf};
use std::sync::Arc;

use searchlite_core::api::types::SearchRequest;
use searchlite_core::api::Index;
use searchlite_core::verif;
use serde::{Deserialize, Serialize};
use serde_json::{json, Value};

use crate::kit::{Stats, Violation};
use crate::model::{contents_short, Contents, Model};
use crate::rng::Rng;
use crate::simfs::SimFs;
use crate::work::*;

#[derive(Clone, Debug, Serialize, Deserialize, PartialEq)]
pub struct ModelCase {
  pub cfg: Cfg,
  pub ops: Vec<Op>,
}

#[derive(Clone, Copy, PartialEq, Eq, Debug)]
pub enum Flavour {
  C04,
  C14,
  C28,
}

pub fn gen_case(rng: &mut Rng, flavour: Flavour, thorough: bool) -> ModelCase {
  let storage = match flavour {
    Flavour::C28 => StorageKind::Fs,
    _ => {
      if rng.chance(2, 3) {
        StorageKind::Fs
      } else {
        StorageKind::Mem
      }
    }
  };
  let profile = match flavour {
    Flavour::C14 => *rng.pick(&[Profile::Basic, Profile::Rich, Profile::Rich, Profile::Nested, Profile::Nested, Profile::Unsafe, Profile::UnsafeNested, Profile::UnsafeNested]),
    _ => *rng.pick(&[Profile::Basic, Profile::Basic, Profile::Rich, Profile::Nested, Profile::Nested, Profile::Unsafe, Profile::UnsafeNested]),
  };
  // swarm: one run in ten works on a large id space with bursts of adds
  // (segments of a few hundred documents), one in six mixes in long documents
  // (files written with several write calls)
  let many = rng.chance(1, 10);
  let big_every = if rng.chance(1, 6) { 2 + rng.below(4) as u32 } else { 0 };
  let cfg = Cfg {
    storage,
    profile,
    positions: rng.chance(1, 2),
    ids: if many { 100 + rng.usize(200) } else { 2 + rng.usize(5) },
    // legal-but-unusual I/O behaviour (short writes, EINTR) in a third of the
    // FsStorage runs: it must change nothing
    transparent: storage == StorageKind::Fs && rng.chance(1, 3),
    odd_ids: !many && rng.chance(1, 4),
  };
  let len = if rng.chance(4, 5) {
    2 + rng.usize(12)
  } else if thorough && rng.chance(1, 4) {
    40 + rng.usize(260)
  } else {
    12 + rng.usize(30)
  };
  let overlap = storage == StorageKind::Fs && rng.chance(1, 2);
  // new_writer, add, delete, commit, rollback, drop, compact, reopen, relocate, open_reader, check_reader
  let mut weights: [u32; 11] = match flavour {
    Flavour::C04 => [6, 30, 10, 14, 4, 6, 4, 4, 0, 4, 6],
    Flavour::C14 => [6, 30, 10, 20, 2, 4, 12, 3, 0, 2, 3],
    Flavour::C28 => [6, 30, 8, 18, 2, 5, 6, 3, 5, 2, 2],
  };
  // swarm: knock out a random subset of optional op kinds
  for i in [2usize, 4, 5, 6, 7, 9, 10] {
    if rng.chance(1, 6) {
      weights[i] = 0;
    }
  }
  let p = GenParams {
    len,
    max_handles: if overlap { 1 + rng.usize(3) } else { 1 },
    overlap,
    weights,
    big_every,
    burst: if many { 30 + rng.below(170) as u32 } else { 0 },
    savepoints: rng.chance(1, 3),
    purge: !many && rng.chance(1, 5),
    multi_delete: rng.chance(1, 2),
  };
  let mut ops = gen_ops(rng, &cfg, &p);
  if storage == StorageKind::Fs && !cfg.profile.compact_unsafe() && rng.chance(1, 3) {
    // histories with occasional storage errors: state cached across a failed
    // call must not poison what follows
    for op in ops.iter_mut() {
      if matches!(op, Op::Commit { .. } | Op::Compact) && rng.chance(1, 3) {
        let inner = Box::new(op.clone());
        *op = Op::Faulty {
          inner,
          at: rng.below(110) as u32,
          kind: if rng.chance(1, 2) { "eio_before".into() } else { "eio_after".into() },
        };
      }
    }
  }
  if flavour == Flavour::C14 {
    // histories end in a compaction
    ops.push(Op::Compact);
  }
  if flavour == Flavour::C28 && !ops.iter().any(|o| matches!(o, Op::Relocate { .. })) {
    let at = rng.usize(ops.len() + 1);
    // relocation ends all handles; strip later ops on dead handles lazily (executor skips them)
    ops.insert(
      at,
      Op::Relocate {
        original: rng.below(4) as u8,
        naming: rng.below(6) as u8,
      },
    );
    // make sure something happens at the copy
    ops.push(Op::NewWriter { h: 900 });
    ops.push(Op::Add {
      h: 900,
      id: "d0".into(),
      ver: 100_000,
    });
    ops.push(Op::Commit { h: 900 });
    if rng.chance(1, 2) {
      ops.push(Op::Compact);
    }
  }
  ModelCase { cfg, ops }
}

fn req(v: Value) -> SearchRequest {
  serde_json::from_value(v).expect("probe request")
}

/// Probe battery for before/after-compaction differentials.
pub fn probes(profile: Profile, versions: &BTreeSet<u64>) -> Vec<(String, SearchRequest)> {
  let mut out = Vec::new();
  let base = |q: Value, f: Option<Value>| {
    let mut r = json!({"query": q, "limit": 10000, "return_stored": false});
    if let Some(f) = f {
      r["filter"] = f;
    }
    req(r)
  };
  // which documents are live, and their stored fields
  out.push(("stored: match_all".into(), req(json!({"query": {"type": "match_all"}, "limit": 10000, "return_stored": true}))));
  // postings of the keyword field (the filters below read fast fields)
  for t in ["red", "green", "blue", "grey"] {
    out.push((format!("term tag:{}", t), base(json!({"type":"term","field":"tag","value":t}), None)));
  }
  for w in ["alpha", "beta", "gamma", "delta", "omega", "sigma"] {
    out.push((format!("term body:{}", w), base(json!({"type":"term","field":"body","value":w}), None)));
  }
  for v in versions.iter().rev().take(6) {
    let t = format!("v{}", v);
    out.push((format!("term body:{}", t), base(json!({"type":"term","field":"body","value":t}), None)));
  }
  out.push(("phrase alpha beta".into(), base(json!({"type":"phrase","field":"body","terms":["alpha","beta"]}), None)));
  out.push(("qs gamma -delta".into(), base(json!({"type":"query_string","query":"gamma -delta"}), None)));
  out.push(("prefix body:al".into(), base(json!({"type":"prefix","field":"body","value":"al"}), None)));
  let all = json!({"type":"match_all"});
  for t in ["red", "green", "blue", "grey"] {
    out.push((
      format!("tag={}", t),
      base(all.clone(), Some(json!({"KeywordEq":{"field":"tag","value":t}}))),
    ));
  }
  out.push((
    "tag in red,blue".into(),
    base(all.clone(), Some(json!({"KeywordIn":{"field":"tag","values":["red","blue"]}}))),
  ));
  out.push((
    "not tag=red".into(),
    base(all.clone(), Some(json!({"Not":{"KeywordEq":{"field":"tag","value":"red"}}}))),
  ));
  let maxv = versions.iter().next_back().copied().unwrap_or(1) as i64;
  for (lo, hi) in [(0, maxv / 2), (maxv / 2 + 1, maxv + 1), (maxv / 3, 2 * maxv / 3)] {
    out.push((
      format!("n in {}..{}", lo, hi),
      base(all.clone(), Some(json!({"I64Range":{"field":"n","min":lo,"max":hi}}))),
    ));
  }
  match profile {
    Profile::Unsafe => {
      for w in ["secret0", "secret1", "secret2"] {
        out.push((format!("term hid:{}", w), base(json!({"type":"term","field":"hid","value":w}), None)));
      }
    }
    Profile::Nested | Profile::UnsafeNested => {
      if profile == Profile::UnsafeNested {
        for l in ["en", "fr", "de"] {
          out.push((
            format!("nested lang={}", l),
            base(all.clone(), Some(json!({"Nested":{"path":"items","filter":{"KeywordEq":{"field":"lang","value":l}}}}))),
          ));
          out.push((
            format!("dotted items.lang={}", l),
            base(all.clone(), Some(json!({"KeywordEq":{"field":"items.lang","value":l}}))),
          ));
          out.push((format!("term items.lang:{}", l), base(json!({"type":"term","field":"items.lang","value":l}), None)));
        }
      }
      for k in ["a", "b", "c", "z"] {
        out.push((
          format!("nested k={}", k),
          base(all.clone(), Some(json!({"Nested":{"path":"items","filter":{"KeywordEq":{"field":"k","value":k}}}}))),
        ));
        out.push((
          format!("dotted items.k={}", k),
          base(all.clone(), Some(json!({"KeywordEq":{"field":"items.k","value":k}}))),
        ));
      }
      out.push((
        "nested k=a and q in 0..3".into(),
        base(
          all.clone(),
          Some(json!({"Nested":{"path":"items","filter":{"And":[
            {"KeywordEq":{"field":"k","value":"a"}},
            {"I64Range":{"field":"q","min":0,"max":3}}]}}})),
        ),
      ));
      out.push((
        "nested not k=a".into(),
        base(all.clone(), Some(json!({"Nested":{"path":"items","filter":{"Not":{"KeywordEq":{"field":"k","value":"a"}}}}}))),
      ));
      out.push((
        "not nested k=b".into(),
        base(all.clone(), Some(json!({"Not":{"Nested":{"path":"items","filter":{"KeywordEq":{"field":"k","value":"b"}}}}}))),
      ));
      for s in ["x", "a"] {
        out.push((
          format!("nested subs s={}", s),
          base(
            all.clone(),
            Some(json!({"Nested":{"path":"items","filter":{"Nested":{"path":"subs","filter":{"KeywordEq":{"field":"s","value":s}}}}}})),
          ),
        ));
        out.push((
          format!("dotted items.subs.s={}", s),
          base(all.clone(), Some(json!({"KeywordEq":{"field":"items.subs.s","value":s}}))),
        ));
      }
      out.push((
        "nested q in 3..7".into(),
        base(all.clone(), Some(json!({"Nested":{"path":"items","filter":{"I64Range":{"field":"q","min":3,"max":7}}}}))),
      ));
    }
    Profile::Rich => {
      for (f, t) in [("title", "zeta"), ("title", "solo"), ("title", "two"), ("cat", "news"), ("cat", "sport"), ("cat", "b")] {
        out.push((format!("term {}:{}", f, t), base(json!({"type":"term","field":f,"value":t}), None)));
      }
      for (lo, hi) in [(1i64, 3i64), (-10, 0), (4, 8), (9007199254740992, 9007199254740993)] {
        out.push((
          format!("m in {}..{}", lo, hi),
          base(all.clone(), Some(json!({"I64Range":{"field":"m","min":lo,"max":hi}}))),
        ));
      }
      for (lo, hi) in [(0.0f64, 3.0f64), (-1.0, 0.0), (3.5, 1e16), (0.0, 1e-6)] {
        out.push((
          format!("price in {}..{}", lo, hi),
          base(all.clone(), Some(json!({"F64Range":{"field":"price","min":lo,"max":hi}}))),
        ));
      }
    }
    Profile::Basic => {}
  }
  out
}

pub type ProbeResults = Vec<(String, Result<Vec<String>, String>)>;

pub fn run_probes(index: &Index, battery: &[(String, SearchRequest)]) -> Result<ProbeResults, Outcome> {
  guarded(|| {
    let reader = index.reader()?;
    let mut out = Vec::new();
    for (label, r) in battery {
      let res = match reader.search(r) {
        Ok(res) => {
          let with_stored = label.starts_with("stored:");
          let mut ids: Vec<String> = res
            .hits
            .iter()
            .map(|h| if with_stored { format!("{} {}", h.doc_id, h.fields.as_ref().map(|f| f.to_string()).unwrap_or_default()) } else { h.doc_id.clone() })
            .collect();
          ids.sort();
          Ok(ids)
        }
        Err(_) => Err("error".to_string()),
      };
      out.push((label.clone(), res));
    }
    Ok(out)
  })
}

fn diff_contents(expected: &Contents, got: &Contents) -> String {
  let mut parts = Vec::new();
  for (id, v) in expected {
    match got.get(id) {
      None => parts.push(format!("missing {}@{}", id, v.ver)),
      Some(g) if g.ver != v.ver => parts.push(format!("{}: expected version {} got {}", id, v.ver, g.ver)),
      Some(g) if g.stored != v.stored => parts.push(format!("{}@{}: stored fields expected {} got {}", id, v.ver, v.stored, g.stored)),
      _ => {}
    }
  }
  for (id, g) in got {
    if !expected.contains_key(id) {
      parts.push(format!("unexpected {}@{}", id, g.ver));
    }
  }
  parts.join("; ")
}

pub struct ModelRun {
  pub violations: Vec<Violation>,
  pub trace: Vec<String>,
}

fn copy_tree(fs: &SimFs, from: &Path, to: &Path) {
  // a backup tool: reads every file under `from`, writes it under `to`
  fs.with(|c| c.record = false);
  let files: Vec<(PathBuf, Vec<u8>)> = fs.with(|c| c.live_files().into_iter().filter(|(p, _)| p.starts_with(from)).collect());
  let image_files: BTreeMap<PathBuf, Vec<u8>> = files
    .into_iter()
    .map(|(p, d)| (to.join(p.strip_prefix(from).unwrap()), d))
    .collect();
  fs.with(|c| {
    c.inject_files(&image_files, to);
    c.record = true;
  });
}

/// Execute one fault-free history on both the real system and the model.
pub fn run_case(case: &ModelCase, wroot: &Path, flavour: Flavour, stats: &mut Stats) -> ModelRun {
  let ids = SimIds::new();
  install_ids(&ids);
  let mut out = ModelRun {
    violations: Vec::new(),
    trace: Vec::new(),
  };
  let props_base: &[&'static str] = match flavour {
    Flavour::C04 => &["C04"],
    Flavour::C14 => &["C14", "C04"],
    Flavour::C28 => &["C28", "C04"],
  };
  let cfg = &case.cfg;
  stats.add("probe.long_documents", case.ops.iter().filter(|o| matches!(o, Op::Add { ver, .. } if crate::work::is_big(*ver))).count() as u64);
  if cfg.ids >= 100 {
    stats.inc("probe.large_id_space_runs");
  }
  let fs = if cfg.storage == StorageKind::Fs {
    let fs = SimFs::new(wroot);
    fs.with(|c| c.record = false);
    if cfg.transparent {
      let shape: String = case.ops.iter().map(|o| o.kind()).collect::<Vec<_>>().join(",");
      fs.with(|c| c.transparent = Some(Rng::new(crate::rng::hash_bytes(21, shape.as_bytes()))));
    }
    verif::fs::mount(wroot, Arc::new(fs.clone()));
    Some(fs)
  } else {
    None
  };
  let mut root = wroot.join("data.bak");
  let mut used_roots: BTreeSet<String> = BTreeSet::new();
  used_roots.insert("data.bak".to_string());
  let mut generation = 0usize;
  let mut relocated = false;
  let mut held_originals: Vec<Index> = Vec::new();
  let mut c14_differential_only = false;
  let mut original_listing: Option<(PathBuf, BTreeMap<PathBuf, Vec<u8>>)> = None;
  let mut session = match Session::create(cfg, &root, fs.clone()) {
    Ok(s) => s,
    Err(o) => {
      out.violations.push(Violation::new(props_base, "create-failed", "create", 0, o.short()));
      return out;
    }
  };
  let mut model = Model::new(cfg.profile.compact_unsafe());
  let mut reader_expect: BTreeMap<usize, Contents> = BTreeMap::new();
  let mut versions: BTreeSet<u64> = BTreeSet::new();
  // A commit that succeeds although shrinking the log failed (injected fault)
  // may leave its operations in the log; whether a later handle replays them
  // (idempotently) is the code's business, the properties only speak of
  // contents. Handles opened after such a fault may therefore start with a
  // constant offset in the indexes `add_document` returns.
  let mut log_leftovers_possible = false;
  let mut may_replay_leftovers: BTreeSet<usize> = BTreeSet::new();
  let mut index_offset: BTreeMap<usize, u32> = BTreeMap::new();
  let mut escapes_seen = 0usize;

  macro_rules! violate {
    ($props:expr, $class:expr, $site:expr, $step:expr, $detail:expr) => {{
      out.violations.push(Violation::new($props, $class, $site, $step, $detail));
      if let Some(fs) = &fs {
        let _ = fs;
      }
      verif::fs::unmount(wroot);
      return out;
    }};
  }

  for (step, op) in case.ops.iter().enumerate() {
    // ---- relocation is an engine-level operation
    if let Op::Relocate { original, naming } = op {
      let Some(fs) = &fs else { continue };
      if session.index.is_none() {
        continue;
      }
      stats.inc("op.relocate");
      session.writers.clear();
      session.readers.clear();
      if *original == 3 {
        // the original stays open in this process while the copy is used
        if let Some(i) = session.index.take() {
          held_originals.push(i);
          stats.inc("probe.original_handle_kept_open");
        }
      }
      session.index = None;
      reader_expect.clear();
      model.reopen();
      generation += 1;
      // adversarial names: the new path may be a textual prefix of the old one
      // (restore `idx.bak` to `idx`) or extend it (`idx` copied to `idx2`)
      let cur = root.file_name().map(|n| n.to_string_lossy().to_string()).unwrap_or_else(|| "data".into());
      let shared_storage = *naming >= 3;
      let naming = &(*naming % 3);
      let name = match naming {
        1 if cur.len() > 1 => cur[..cur.len() - 1].trim_end_matches('.').to_string(),
        2 => format!("{}2", cur),
        _ => format!("r{}", generation),
      };
      let mut name = if name.is_empty() || name == cur { format!("r{}", generation) } else { name };
      // never reuse the name of an earlier root (its files may still be there)
      while !used_roots.insert(name.clone()) {
        name = format!("{}n{}", name, generation);
      }
      let newroot = wroot.join(name);
      copy_tree(fs, &root, &newroot);
      match original {
        0 | 3 => {
          let listing = fs.with(|c| c.live_files().into_iter().filter(|(p, _)| p.starts_with(&root)).collect());
          original_listing = Some((root.clone(), listing));
        }
        1 => {
          fs.with(|c| c.purge(&root, false));
          original_listing = Some((root.clone(), BTreeMap::new()));
        }
        _ => {
          fs.with(|c| c.purge(&root, true));
          original_listing = Some((root.clone(), BTreeMap::new()));
        }
      }
      fs.with(|c| {
        c.allowed = Some(newroot.clone());
        c.escapes.clear();
      });
      escapes_seen = 0;
      relocated = true;
      let oldroot = root.clone();
      root = newroot;
      out.trace.push(format!("{} relocate({}) -> {}", step, original, root.file_name().map(|n| n.to_string_lossy().to_string()).unwrap_or_default()));
      let opened = if shared_storage {
        stats.inc("probe.copy_opened_through_storage_of_original_root");
        let st: std::sync::Arc<dyn searchlite_core::storage::Storage> = std::sync::Arc::new(searchlite_core::storage::FsStorage::new(oldroot.clone()));
        Session::open_custom(cfg, &root, Some(fs.clone()), st)
      } else {
        Session::open(cfg, &root, Some(fs.clone()))
      };
      match opened {
        Ok(s) => session = s,
        Err(o) => violate!(
          &["C28"],
          "open-at-copy-failed",
          "open",
          step,
          format!("opening the copied index at {} failed: {}", root.display(), o.short())
        ),
      }
    } else if let Op::Faulty { inner, at, kind } = op {
      let Some(fs) = &fs else { continue };
      if !session.applicable(inner) || cfg.profile.compact_unsafe() {
        continue;
      }
      let Some(fk) = crate::simfs::FaultKind::parse(kind) else { continue };
      let props: Vec<&'static str> = {
        let mut p: Vec<&'static str> = vec!["C03", "C04"];
        if relocated {
          p.push("C28");
        }
        p
      };
      fs.arm(vec![crate::simfs::Fault { at: *at as u64, kind: fk }]);
      let first = session.exec(inner);
      let fired = fs.with(|c| !c.fired.is_empty());
      fs.disarm();
      if fired {
        if let Op::Commit { h } = inner.as_ref() {
          log_leftovers_possible = true;
          // the faulted handle's own queue is cleared (or retried) by the commit
          index_offset.remove(h);
          may_replay_leftovers.remove(h);
        }
        stats.inc(&format!("fault.{}", kind));
        stats.inc(if first.is_ok() { "probe.faulted_call_succeeded" } else { "probe.faulted_call_failed_then_retried" });
      }
      if let Outcome::Panic(p) = &first {
        violate!(&props, "panic", "faulty", step, format!("{} panicked: {}", op.short(), p));
      }
      if !first.is_ok() {
        let again = session.exec(inner);
        if !again.is_ok() {
          violate!(
            &props,
            "retry-failed",
            inner.kind(),
            step,
            format!("{} failed ({}); re-issuing it with healthy storage -> {}", op.short(), first.short(), again.short())
          );
        }
      }
      match inner.as_ref() {
        Op::Commit { h } => model.commit(*h),
        Op::Compact => {
          let _ = model.compact();
        }
        _ => {}
      }
      out.trace.push(format!("{} faulty {} -> {}", step, inner.kind(), if first.is_ok() { "ok" } else { "retried" }));
    } else {
      if !session.applicable(op) {
        out.trace.push(format!("{} {} skipped", step, op.kind()));
        continue;
      }
      stats.inc(&format!("op.{}", op.kind()));
      let props: Vec<&'static str> = {
        let mut p: Vec<&'static str> = vec!["C04"];
        if matches!(op, Op::Compact) || flavour == Flavour::C14 {
          p.push("C14");
        }
        if relocated {
          p.push("C28");
        }
        p
      };
      // ---- compaction: before/after differential
      let mut before: Option<(ProbeResults, usize, BTreeSet<PathBuf>)> = None;
      let battery = if matches!(op, Op::Compact) {
        let b = probes(cfg.profile, &versions);
        match run_probes(session.index.as_ref().unwrap(), &b) {
          Ok(r) => {
            let segs = session.index.as_ref().unwrap().manifest().segments.len();
            let files: BTreeSet<PathBuf> = fs
              .as_ref()
              .map(|f| f.with(|c| c.live_files().into_keys().filter(|p| p.starts_with(&root)).collect()))
              .unwrap_or_default();
            before = Some((r, segs, files));
          }
          Err(o) => violate!(&props, "probe-failed", "before-compact", step, o.short()),
        }
        Some(b)
      } else {
        None
      };
      let outcome = session.exec(op);
      out.trace.push(format!("{} {} -> {}", step, op.kind(), if outcome.is_ok() { "ok" } else { "fail" }));
      if let Outcome::Panic(p) = &outcome {
        violate!(&props, "panic", op.kind(), step, format!("{} panicked: {}", op.short(), p));
      }
      // ---- model transition + outcome comparison
      match op {
        Op::NewWriter { h } => {
          model.new_writer(*h);
          index_offset.remove(h);
          if log_leftovers_possible {
            may_replay_leftovers.insert(*h);
          } else {
            may_replay_leftovers.remove(h);
          }
          if !outcome.is_ok() {
            violate!(&props, "call-failed", "new_writer", step, format!("{} -> {}", op.short(), outcome.short()));
          }
        }
        Op::Add { h, id, ver } => {
          versions.insert(*ver);
          let base = model.add(*h, id, version_of(cfg.profile, id, *ver));
          let expect = base + index_offset.get(h).copied().unwrap_or(0);
          // only the first add of a handle reveals what it replayed
          let first_add_after_fault = may_replay_leftovers.remove(h);
          match &outcome {
            Outcome::OkIndex(i) if *i == expect => {}
            Outcome::OkIndex(i) if *i > expect && first_add_after_fault => {
              // first add of a handle opened after a faulted commit: it replayed
              // log leftovers; from now on its indexes are shifted by a constant
              stats.inc("probe.handle_replayed_log_leftovers");
              index_offset.insert(*h, *i - base);
            }
            Outcome::OkIndex(i) => violate!(
              &props,
              "add-index-mismatch",
              "add",
              step,
              format!("{} returned {} but the handle's queue holds {} earlier adds", op.short(), i, expect)
            ),
            o => violate!(&props, "call-failed", "add", step, format!("{} -> {}", op.short(), o.short())),
          }
        }
        Op::Delete { h, id } => {
          model.delete(*h, id);
          if !outcome.is_ok() {
            violate!(&props, "call-failed", "delete", step, format!("{} -> {}", op.short(), outcome.short()));
          }
        }
        Op::DeleteMany { h, ids } => {
          for id in ids {
            model.delete(*h, id);
          }
          if !outcome.is_ok() {
            violate!(&props, "call-failed", "delete_many", step, format!("{} -> {}", op.short(), outcome.short()));
          }
        }
        Op::Commit { h } => {
          model.commit(*h);
          index_offset.remove(h);
          may_replay_leftovers.remove(h);
          if !outcome.is_ok() {
            violate!(&props, "call-failed", "commit", step, format!("{} -> {}", op.short(), outcome.short()));
          }
        }
        Op::Rollback { h } => {
          model.rollback(*h);
          index_offset.remove(h);
          may_replay_leftovers.remove(h);
          if !outcome.is_ok() {
            violate!(&props, "call-failed", "rollback", step, format!("{} -> {}", op.short(), outcome.short()));
          }
        }
        Op::DropWriter { h } => model.drop_writer(*h),
        Op::Savepoint { h } => {
          model.savepoint(*h);
          if !outcome.is_ok() {
            violate!(&props, "call-failed", "savepoint", step, format!("{} -> {}", op.short(), outcome.short()));
          }
        }
        Op::RollbackTo { h } => {
          model.rollback_to(*h);
          stats.inc("probe.partial_rollbacks");
          if !outcome.is_ok() {
            violate!(&props, "call-failed", "rollback_to", step, format!("{} -> {}", op.short(), outcome.short()));
          }
        }
        Op::Reopen => {
          model.reopen();
          reader_expect.clear();
          if !outcome.is_ok() {
            violate!(&props, "call-failed", "reopen", step, format!("reopen -> {}", outcome.short()));
          }
        }
        Op::Compact => {
          let (pre, segs_before, files_before) = before.take().unwrap();
          let expect = model.compact();
          let idx = session.index.as_ref().unwrap();
          let segs_after = idx.manifest().segments.len();
          match (expect, &outcome) {
            (Ok(changed), o) if o.is_ok() => {
              if changed {
                stats.inc("probe.compaction_merged");
                if segs_after != 1 {
                  violate!(
                    &["C14"],
                    "segments-after-compact",
                    "compact",
                    step,
                    format!("{} segments before, {} after a successful compaction", segs_before, segs_after)
                  );
                }
              }
            }
            (Err(()), Outcome::Err(e)) => {
              stats.inc("probe.compaction_refused");
              let files_after: BTreeSet<PathBuf> = fs
                .as_ref()
                .map(|f| f.with(|c| c.live_files().into_keys().filter(|p| p.starts_with(&root)).collect()))
                .unwrap_or_default();
              if segs_after != segs_before || (fs.is_some() && files_after != files_before) {
                violate!(
                  &["C14"],
                  "refusal-changed-state",
                  "compact",
                  step,
                  format!(
                    "compaction refused ({}) but segments {}->{} files {}->{}",
                    e,
                    segs_before,
                    segs_after,
                    files_before.len(),
                    files_after.len()
                  )
                );
              }
            }
            (Err(()), o) => violate!(
              &["C14"],
              "unsafe-compaction-accepted",
              "compact",
              step,
              format!("schema has an indexed non-stored field and {} segments, compact() -> {}", segs_before, o.short())
            ),
            (Ok(_), o) => violate!(&props, "call-failed", "compact", step, format!("compact -> {}", o.short())),
          }
          let post = match run_probes(idx, battery.as_ref().unwrap()) {
            Ok(r) => r,
            Err(o) => violate!(&["C14"], "probe-failed", "after-compact", step, o.short()),
          };
          stats.add("probe.queries_compared", post.len() as u64);
          for ((label, a), (_, b)) in pre.iter().zip(post.iter()) {
            if a != b {
              // recorded, but the contents check below still runs (the same
              // defect usually breaks C04 as well)
              out.violations.push(Violation::new(
                &["C14"],
                "probe-mismatch",
                "compact",
                step,
                format!("query `{}` matched {:?} before compaction and {:?} after", label, a, b),
              ));
              break;
            }
          }
        }
        Op::OpenReader { r } => {
          reader_expect.insert(*r, model.committed.clone());
          if !outcome.is_ok() {
            violate!(&props, "call-failed", "open_reader", step, format!("reader() -> {}", outcome.short()));
          }
        }
        Op::CheckReader { .. } | Op::Relocate { .. } | Op::Faulty { .. } => {}
      }
    }
    // ---- kept readers keep their snapshot
    // (every second reader is not searched when it is opened: its first
    // stored-field fetch then happens after whatever came in between)
    let lazy_open = matches!(op, Op::OpenReader { r } if r % 2 == 1);
    if let (Op::CheckReader { r } | Op::OpenReader { r }, false) = (op, lazy_open) {
      if let (Some(rd), Some(exp)) = (session.readers.get(r), reader_expect.get(r)) {
        match guarded(|| search_all(rd)) {
          Ok(obs) => match obs.to_contents() {
            Ok(c) if &c == exp => stats.inc("probe.old_reader_checked"),
            Ok(c) => violate!(
              &["C04", "C06"],
              "old-reader-changed",
              "reader",
              step,
              format!("reader r{} opened at {:?} now shows {:?}: {}", r, contents_short(exp), contents_short(&c), diff_contents(exp, &c))
            ),
            Err(e) => violate!(&["C04", "C06"], "old-reader-changed", "reader", step, e),
          },
          Err(o) => violate!(&["C04", "C06"], "old-reader-failed", "reader", step, o.short()),
        }
      }
    }
    // ---- a fresh reader shows exactly the model's committed state
    let props: Vec<&'static str> = {
      let mut p: Vec<&'static str> = vec!["C04"];
      if matches!(op, Op::Compact) {
        p.push("C14");
      }
      if relocated {
        p.push("C28");
      }
      p
    };
    if c14_differential_only {
      // (C14 flavour after a violation that is not C14's own: the model no longer
      // describes this tree; the before/after differential around compactions
      // still judges what compaction does)
      continue;
    }
    match session.observe() {
      Ok(obs) => match obs.to_contents() {
        Ok(c) => {
          if c != model.committed && flavour == Flavour::C14 && !matches!(op, Op::Compact) {
            out.violations.push(Violation::new(
              &["C04"],
              "contents-mismatch",
              op.kind(),
              step,
              format!("after {}: {}", op.short(), diff_contents(&model.committed, &c)),
            ));
            c14_differential_only = true;
            continue;
          }
          if c != model.committed {
            violate!(
              &props,
              "contents-mismatch",
              op.kind(),
              step,
              format!(
                "after {}: expected {:?} got {:?}: {}",
                op.short(),
                contents_short(&model.committed),
                contents_short(&c),
                diff_contents(&model.committed, &c)
              )
            );
          }
          stats.inc("checks.contents");
        }
        Err(e) => violate!(&props, "contents-mismatch", op.kind(), step, format!("after {}: {}", op.short(), e)),
      },
      Err(o) => violate!(&props, "read-failed", op.kind(), step, format!("reader/search after {} -> {}", op.short(), o.short())),
    }
    if !out.violations.is_empty() && !c14_differential_only {
      verif::fs::unmount(wroot);
      return out;
    }
    if c14_differential_only && out.violations.iter().any(|v| v.properties.contains(&"C14")) {
      verif::fs::unmount(wroot);
      return out;
    }
    // ---- C28: nothing outside the new root, original untouched
    if relocated {
      if let Some(fs) = &fs {
        let esc: Vec<(String, PathBuf)> = fs.with(|c| c.escapes.clone());
        if esc.len() > escapes_seen {
          let (what, p) = &esc[escapes_seen];
          let _ = escapes_seen;
          violate!(
            &["C28"],
            "path-escape",
            "original-path-access",
            step,
            format!("{} touched {} (outside {}) during {}", what, p.display(), root.display(), op.short())
          );
        }
        if let Some((orig, listing)) = &original_listing {
          let now: BTreeMap<PathBuf, Vec<u8>> = fs.with(|c| c.live_files().into_iter().filter(|(p, _)| p.starts_with(orig)).collect());
          if &now != listing {
            violate!(
              &["C28"],
              "original-modified",
              "original-path-access",
              step,
              format!("files under {} changed during {}: {} -> {} files", orig.display(), op.short(), listing.len(), now.len())
            );
          }
          stats.inc("probe.original_listing_checked");
        }
      }
    }
  }
  if let Some(fs) = &fs {
    let t = fs.with(|c| c.stats.clone());
    stats.add("fault.short_write", t.short_write);
    stats.add("fault.eintr", t.eintr);
  }
  // fingerprint of the explored history shape
  let shape: String = case.ops.iter().map(|o| o.kind()).collect::<Vec<_>>().join(",");
  stats.fingerprints.insert(crate::rng::hash_bytes(cfg.ids as u64 ^ ((cfg.profile as u64) << 8) ^ ((cfg.storage as u64) << 16), shape.as_bytes()));
  verif::fs::unmount(wroot);
  out
}

/// Candidate simplifications of a failing case, most aggressive first.
pub fn shrink_candidates(case: &ModelCase) -> Vec<ModelCase> {
  let mut out = Vec::new();
  let n = case.ops.len();
  // drop chunks
  let mut chunk = n / 2;
  while chunk >= 1 {
    let mut i = 0;
    while i + chunk <= n {
      let mut ops = case.ops.clone();
      ops.drain(i..i + chunk);
      out.push(ModelCase {
        cfg: case.cfg.clone(),
        ops,
      });
      i += chunk;
    }
    chunk /= 2;
  }
  // simpler configuration
  if case.cfg.profile != Profile::Basic {
    let mut c = case.clone();
    c.cfg.profile = Profile::Basic;
    out.push(c);
  }
  if case.cfg.positions {
    let mut c = case.clone();
    c.cfg.positions = false;
    out.push(c);
  }
  // merge ids
  let ids = ids_in(&case.ops);
  if ids.len() > 1 {
    let first = ids.iter().next().unwrap().clone();
    for id in ids.iter().skip(1) {
      let mut c = case.clone();
      for op in c.ops.iter_mut() {
        match op {
          Op::Add { id: i, .. } | Op::Delete { id: i, .. } if i == id => *i = first.clone(),
          _ => {}
        }
      }
      out.push(c);
    }
  }
  out
}
