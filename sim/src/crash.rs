//! Durability model M1 ("journalled metadata, per-inode data") over the SimFs
//! operation log. A `Tracker` is advanced through the log one entry at a time;
//! at any boundary `image(choice)` builds a disk image that M1 allows.
//!
//! * Namespace operations form one ordered journal; after a crash a prefix of
//!   the not-yet-durable suffix survives. fsync(dir) flushes the whole journal;
//!   fsync(file) flushes the journal up to that inode's last namespace op.
//! * Per inode, a prefix of the data operations issued since its last fsync
//!   survives; the next write may be torn at any byte or zero-filled.

use std::collections::{BTreeMap, BTreeSet};
use std::path::{Path, PathBuf};

use crate::rng::{hash_bytes, Rng};
use crate::simfs::{Ev, LogEntry};

#[derive(Clone, Debug)]
enum JOp {
  Create { ino: u64, path: PathBuf },
  Rename { from: PathBuf, to: PathBuf },
  Unlink { path: PathBuf },
  Mkdir { path: PathBuf },
  RmDirAll { path: PathBuf },
}

#[derive(Clone, Debug)]
enum DOp {
  Trunc,
  Write { off: u64, data: Vec<u8> },
  SetLen { len: u64 },
}

/// Tag of a WAL byte: which API call wrote it (u32::MAX-1 = pre-existing /
/// unknown, u32::MAX = zero fill).
pub const TAG_ZERO: u32 = u32::MAX;
pub const TAG_OLD: u32 = u32::MAX - 1;

#[derive(Clone, Debug, Default)]
struct InoState {
  durable: Vec<u8>,
  durable_tags: Option<Vec<u32>>,
  pending: Vec<(DOp, u32)>,
  last_ns_seq: u64,
}

#[derive(Clone, Debug, PartialEq, Eq)]
pub enum Tail {
  None,
  /// keep this many bytes of the next write
  Torn(usize),
  /// next write's range is allocated but holds zeros
  Zero,
}

#[derive(Clone, Debug)]
pub struct InoChoice {
  pub keep: usize,
  pub tail: Tail,
}

/// What survives a crash. Inodes not listed follow `default_all`.
#[derive(Clone, Debug)]
pub struct Choice {
  pub journal_keep: usize,
  pub default_all: bool,
  pub inodes: BTreeMap<u64, InoChoice>,
  pub class: &'static str,
}

#[derive(Clone, Debug)]
pub struct Image {
  pub files: BTreeMap<PathBuf, Vec<u8>>,
  pub dirs: BTreeSet<PathBuf>,
  /// per-byte provenance of wal.log (API call index)
  pub wal_tags: Option<Vec<u32>>,
  pub hash: u64,
}

#[derive(Clone)]
pub struct Tracker {
  ns_names: BTreeMap<PathBuf, u64>,
  ns_dirs: BTreeSet<PathBuf>,
  journal: Vec<(u64, JOp)>,
  next_seq: u64,
  live_names: BTreeMap<PathBuf, u64>,
  inodes: BTreeMap<u64, InoState>,
  tagged: BTreeSet<u64>,
  pub tag_suffix: &'static str,
}

fn apply_d(content: &mut Vec<u8>, op: &DOp) {
  match op {
    DOp::Trunc => content.clear(),
    DOp::Write { off, data } => {
      let end = *off as usize + data.len();
      if content.len() < end {
        content.resize(end, 0);
      }
      content[*off as usize..end].copy_from_slice(data);
    }
    DOp::SetLen { len } => content.resize(*len as usize, 0),
  }
}

fn apply_tags(tags: &mut Vec<u32>, op: &DOp, tag: u32) {
  match op {
    DOp::Trunc => tags.clear(),
    DOp::Write { off, data } => {
      let end = *off as usize + data.len();
      if tags.len() < end {
        tags.resize(end, TAG_ZERO);
      }
      for t in &mut tags[*off as usize..end] {
        *t = tag;
      }
    }
    DOp::SetLen { len } => tags.resize(*len as usize, TAG_ZERO),
  }
}

fn apply_j(names: &mut BTreeMap<PathBuf, u64>, dirs: &mut BTreeSet<PathBuf>, op: &JOp) {
  match op {
    JOp::Create { ino, path } => {
      names.insert(path.clone(), *ino);
    }
    JOp::Rename { from, to } => {
      if let Some(ino) = names.remove(from) {
        names.insert(to.clone(), ino);
      }
    }
    JOp::Unlink { path } => {
      names.remove(path);
    }
    JOp::Mkdir { path } => {
      dirs.insert(path.clone());
    }
    JOp::RmDirAll { path } => {
      let doomed: Vec<PathBuf> = names.keys().filter(|p| p.starts_with(path)).cloned().collect();
      for p in doomed {
        names.remove(&p);
      }
      let dd: Vec<PathBuf> = dirs.iter().filter(|p| p.starts_with(path)).cloned().collect();
      for d in dd {
        dirs.remove(&d);
      }
    }
  }
}

impl Tracker {
  pub fn new(initial: &[(PathBuf, u64, Vec<u8>)], initial_dirs: &BTreeSet<PathBuf>) -> Self {
    let mut t = Tracker {
      ns_names: BTreeMap::new(),
      ns_dirs: initial_dirs.clone(),
      journal: Vec::new(),
      next_seq: 1,
      live_names: BTreeMap::new(),
      inodes: BTreeMap::new(),
      tagged: BTreeSet::new(),
      tag_suffix: "wal.log",
    };
    for (p, ino, data) in initial {
      t.ns_names.insert(p.clone(), *ino);
      t.live_names.insert(p.clone(), *ino);
      let tagged = p.to_string_lossy().ends_with(t.tag_suffix);
      if tagged {
        t.tagged.insert(*ino);
      }
      t.inodes.insert(
        *ino,
        InoState {
          durable: data.clone(),
          durable_tags: if tagged { Some(vec![TAG_OLD; data.len()]) } else { None },
          pending: Vec::new(),
          last_ns_seq: 0,
        },
      );
    }
    t
  }

  /// Provenance of the bytes of the tagged file (wal.log) carried over from
  /// the image this disk was booted from.
  pub fn set_initial_tags(&mut self, tags: Vec<u32>) {
    for ino in self.tagged.clone() {
      if let Some(st) = self.inodes.get_mut(&ino) {
        if st.durable.len() == tags.len() {
          st.durable_tags = Some(tags.clone());
        }
      }
    }
  }

  fn jpush(&mut self, op: JOp) -> u64 {
    let seq = self.next_seq;
    self.next_seq += 1;
    self.journal.push((seq, op));
    seq
  }

  fn flush_journal_upto(&mut self, seq: u64) {
    let n = self.journal.iter().take_while(|(s, _)| *s <= seq).count();
    let flushed: Vec<(u64, JOp)> = self.journal.drain(..n).collect();
    for (_, op) in flushed {
      apply_j(&mut self.ns_names, &mut self.ns_dirs, &op);
    }
  }

  pub fn apply(&mut self, entry: &LogEntry) {
    let tag = entry.api.map(|a| a as u32).unwrap_or(TAG_OLD);
    match &entry.ev {
      Ev::Create { ino, path } => {
        let seq = self.jpush(JOp::Create {
          ino: *ino,
          path: path.clone(),
        });
        self.live_names.insert(path.clone(), *ino);
        let tagged = path.to_string_lossy().ends_with(self.tag_suffix);
        if tagged {
          self.tagged.insert(*ino);
        }
        self.inodes.insert(
          *ino,
          InoState {
            durable: Vec::new(),
            durable_tags: if tagged { Some(Vec::new()) } else { None },
            pending: Vec::new(),
            last_ns_seq: seq,
          },
        );
      }
      Ev::Trunc { ino } => {
        if let Some(st) = self.inodes.get_mut(ino) {
          st.pending.push((DOp::Trunc, tag));
        }
      }
      Ev::Write { ino, off, data } => {
        if let Some(st) = self.inodes.get_mut(ino) {
          st.pending.push((
            DOp::Write {
              off: *off,
              data: data.clone(),
            },
            tag,
          ));
        }
      }
      Ev::SetLen { ino, len } => {
        if let Some(st) = self.inodes.get_mut(ino) {
          st.pending.push((DOp::SetLen { len: *len }, tag));
        }
      }
      Ev::Fsync { ino } => {
        let mut upto = 0;
        if let Some(st) = self.inodes.get_mut(ino) {
          let pending = std::mem::take(&mut st.pending);
          for (op, tg) in pending.iter() {
            apply_d(&mut st.durable, op);
            if let Some(tags) = st.durable_tags.as_mut() {
              apply_tags(tags, op, *tg);
            }
          }
          upto = st.last_ns_seq;
        }
        self.flush_journal_upto(upto);
      }
      Ev::FsyncDir { .. } => {
        self.flush_journal_upto(u64::MAX);
      }
      Ev::Rename { from, to } => {
        let seq = self.jpush(JOp::Rename {
          from: from.clone(),
          to: to.clone(),
        });
        if let Some(ino) = self.live_names.remove(from) {
          if let Some(old) = self.live_names.insert(to.clone(), ino) {
            if let Some(st) = self.inodes.get_mut(&old) {
              st.last_ns_seq = seq;
            }
          }
          if let Some(st) = self.inodes.get_mut(&ino) {
            st.last_ns_seq = seq;
          }
        }
      }
      Ev::Unlink { path } => {
        let seq = self.jpush(JOp::Unlink { path: path.clone() });
        if let Some(ino) = self.live_names.remove(path) {
          if let Some(st) = self.inodes.get_mut(&ino) {
            st.last_ns_seq = seq;
          }
        }
      }
      Ev::Mkdir { path } => {
        self.jpush(JOp::Mkdir { path: path.clone() });
      }
      Ev::RmDirAll { path } => {
        self.jpush(JOp::RmDirAll { path: path.clone() });
        let doomed: Vec<PathBuf> = self.live_names.keys().filter(|p| p.starts_with(path)).cloned().collect();
        for p in doomed {
          self.live_names.remove(&p);
        }
      }
      Ev::ApiBegin { .. } | Ev::ApiEnd { .. } => {}
    }
  }

  pub fn journal_len(&self) -> usize {
    self.journal.len()
  }

  /// Inodes with un-synced data operations, with the number of pending ops.
  pub fn dirty(&self) -> Vec<(u64, usize)> {
    self
      .inodes
      .iter()
      .filter(|(_, st)| !st.pending.is_empty())
      .map(|(ino, st)| (*ino, st.pending.len()))
      .collect()
  }

  pub fn pending_write_len(&self, ino: u64, idx: usize) -> Option<usize> {
    match self.inodes.get(&ino)?.pending.get(idx)? {
      (DOp::Write { data, .. }, _) => Some(data.len()),
      _ => None,
    }
  }

  pub fn ino_of_live(&self, path: &Path) -> Option<u64> {
    self.live_names.get(path).copied()
  }

  pub fn is_tagged(&self, ino: u64) -> bool {
    self.tagged.contains(&ino)
  }

  pub fn image(&self, choice: &Choice) -> Image {
    let mut names = self.ns_names.clone();
    let mut dirs = self.ns_dirs.clone();
    let k = choice.journal_keep.min(self.journal.len());
    for (_, op) in &self.journal[..k] {
      apply_j(&mut names, &mut dirs, op);
    }
    let mut files = BTreeMap::new();
    let mut wal_tags = None;
    let mut h: u64 = 0x1234_5678;
    for d in &dirs {
      h = hash_bytes(h, d.to_string_lossy().as_bytes());
    }
    for (path, ino) in &names {
      let st = match self.inodes.get(ino) {
        Some(st) => st,
        None => continue,
      };
      let (keep, tail) = match choice.inodes.get(ino) {
        Some(c) => (c.keep.min(st.pending.len()), c.tail.clone()),
        None => {
          if choice.default_all {
            (st.pending.len(), Tail::None)
          } else {
            (0, Tail::None)
          }
        }
      };
      let mut content = st.durable.clone();
      let mut tags = st.durable_tags.clone();
      for (op, tg) in &st.pending[..keep] {
        apply_d(&mut content, op);
        if let Some(t) = tags.as_mut() {
          apply_tags(t, op, *tg);
        }
      }
      if keep < st.pending.len() {
        if let (DOp::Write { off, data }, tg) = &st.pending[keep] {
          match tail {
            Tail::None => {}
            Tail::Torn(n) => {
              let n = n.min(data.len());
              if n > 0 {
                let part = DOp::Write {
                  off: *off,
                  data: data[..n].to_vec(),
                };
                apply_d(&mut content, &part);
                if let Some(t) = tags.as_mut() {
                  apply_tags(t, &part, *tg);
                }
              }
            }
            Tail::Zero => {
              let part = DOp::Write {
                off: *off,
                data: vec![0u8; data.len()],
              };
              apply_d(&mut content, &part);
              if let Some(t) = tags.as_mut() {
                apply_tags(t, &part, TAG_ZERO);
              }
            }
          }
        }
      }
      h = hash_bytes(h, path.to_string_lossy().as_bytes());
      h = hash_bytes(h, &content);
      if let Some(t) = tags {
        if path.to_string_lossy().ends_with(self.tag_suffix) {
          wal_tags = Some(t);
        }
      }
      files.insert(path.clone(), content);
    }
    Image {
      files,
      dirs,
      wal_tags,
      hash: h,
    }
  }

  pub fn only_durable(&self) -> Choice {
    Choice {
      journal_keep: 0,
      default_all: false,
      inodes: BTreeMap::new(),
      class: "only_durable",
    }
  }

  pub fn all_persisted(&self) -> Choice {
    Choice {
      journal_keep: self.journal.len(),
      default_all: true,
      inodes: BTreeMap::new(),
      class: "all_persisted",
    }
  }

  /// Structured single-deviation choices plus `samples` PRNG-mixed ones.
  pub fn choices(&self, rng: &mut Rng, samples: usize, exhaustive_tail_for: Option<u64>) -> Vec<Choice> {
    let mut out = vec![self.only_durable(), self.all_persisted()];
    let jl = self.journal.len();
    let dirty = self.dirty();
    // all persisted except the last j journal entries
    for k in 0..jl {
      out.push(Choice {
        journal_keep: k,
        default_all: true,
        inodes: BTreeMap::new(),
        class: "dev_journal_short",
      });
    }
    // only durable plus a journal prefix
    for k in 1..=jl {
      out.push(Choice {
        journal_keep: k,
        default_all: false,
        inodes: BTreeMap::new(),
        class: "dev_journal_only",
      });
    }
    for (ino, n) in &dirty {
      // all persisted except (a suffix of) this inode's data
      // (inodes with many un-synced data operations - a log after a burst of
      // adds, a file written in many chunks: both ends, the middle and a
      // seeded sample instead of every prefix)
      let keeps: Vec<usize> = if *n <= 12 {
        (0..*n).collect()
      } else {
        let mut v = vec![0, 1, 2, *n / 2, *n - 3, *n - 2, *n - 1];
        for _ in 0..3 {
          v.push(rng.usize(*n));
        }
        v.sort_unstable();
        v.dedup();
        v
      };
      for keep in keeps {
        let mut m = BTreeMap::new();
        m.insert(
          *ino,
          InoChoice {
            keep,
            tail: Tail::None,
          },
        );
        out.push(Choice {
          journal_keep: jl,
          default_all: true,
          inodes: m,
          class: "dev_data_short",
        });
      }
      // only durable plus this inode's data (journal complete so it is visible)
      let mut m = BTreeMap::new();
      m.insert(
        *ino,
        InoChoice {
          keep: *n,
          tail: Tail::None,
        },
      );
      out.push(Choice {
        journal_keep: jl,
        default_all: false,
        inodes: m,
        class: "dev_data_only",
      });
      // torn / zero-filled last write
      let last = n - 1;
      if let Some(len) = self.pending_write_len(*ino, last) {
        let exhaustive = exhaustive_tail_for == Some(*ino) && len <= 160;
        let mut cuts: Vec<usize> = if exhaustive {
          (1..len).collect()
        } else {
          let mut v = vec![1, len / 2, len.saturating_sub(1), len.saturating_sub(4)];
          v.push(1 + rng.usize(len.max(2) - 1));
          v
        };
        cuts.retain(|c| *c > 0 && *c < len);
        cuts.sort_unstable();
        cuts.dedup();
        for cut in cuts {
          let mut m = BTreeMap::new();
          m.insert(
            *ino,
            InoChoice {
              keep: last,
              tail: Tail::Torn(cut),
            },
          );
          out.push(Choice {
            journal_keep: jl,
            default_all: true,
            inodes: m,
            class: "torn",
          });
        }
        let mut m = BTreeMap::new();
        m.insert(
          *ino,
          InoChoice {
            keep: last,
            tail: Tail::Zero,
          },
        );
        out.push(Choice {
          journal_keep: jl,
          default_all: true,
          inodes: m,
          class: "zero_fill",
        });
      }
    }
    for _ in 0..samples {
      out.push(self.random_choice(rng));
    }
    out
  }

  pub fn random_choice(&self, rng: &mut Rng) -> Choice {
    let jl = self.journal.len();
    let journal_keep = if jl == 0 { 0 } else { rng.usize(jl + 1) };
    let mut inodes = BTreeMap::new();
    for (ino, n) in self.dirty() {
      let keep = rng.usize(n + 1);
      let tail = if keep < n {
        match (rng.below(4), self.pending_write_len(ino, keep)) {
          (0, Some(len)) if len > 1 => Tail::Torn(1 + rng.usize(len - 1)),
          (1, Some(_)) => Tail::Zero,
          _ => Tail::None,
        }
      } else {
        Tail::None
      };
      inodes.insert(ino, InoChoice { keep, tail });
    }
    Choice {
      journal_keep,
      default_all: rng.chance(1, 2),
      inodes,
      class: "mixed",
    }
  }
}

impl Choice {
  pub fn to_json(&self) -> serde_json::Value {
    let inodes: serde_json::Map<String, serde_json::Value> = self
      .inodes
      .iter()
      .map(|(ino, c)| {
        let tail = match &c.tail {
          Tail::None => serde_json::json!(null),
          Tail::Torn(n) => serde_json::json!({"torn": n}),
          Tail::Zero => serde_json::json!("zero"),
        };
        (ino.to_string(), serde_json::json!({"keep": c.keep, "tail": tail}))
      })
      .collect();
    serde_json::json!({
      "journal_keep": self.journal_keep,
      "default_all": self.default_all,
      "inodes": inodes,
      "class": self.class,
    })
  }

  pub fn from_json(v: &serde_json::Value) -> Option<Choice> {
    let mut inodes = BTreeMap::new();
    if let Some(m) = v.get("inodes").and_then(|m| m.as_object()) {
      for (k, c) in m {
        let ino: u64 = k.parse().ok()?;
        let keep = c.get("keep")?.as_u64()? as usize;
        let tail = match c.get("tail") {
          Some(serde_json::Value::String(s)) if s == "zero" => Tail::Zero,
          Some(serde_json::Value::Object(o)) => Tail::Torn(o.get("torn")?.as_u64()? as usize),
          _ => Tail::None,
        };
        inodes.insert(ino, InoChoice { keep, tail });
      }
    }
    Some(Choice {
      journal_keep: v.get("journal_keep")?.as_u64()? as usize,
      default_all: v.get("default_all")?.as_bool()?,
      inodes,
      class: "replay",
    })
  }
}
