//! `simcheck selftest simfs`: differential test of SimFs' live semantics
//! against a real directory (tmpfs), through the same `verif::fs` shim the
//! core uses. A wrong live semantics would turn into false alarms.

use std::io::{Read, Seek, SeekFrom, Write};
use std::path::{Path, PathBuf};
use std::sync::Arc;

use searchlite_core::verif::fs as vfs;

use crate::rng::Rng;
use crate::simfs::SimFs;

fn obs_err<T>(r: &std::io::Result<T>) -> String {
  match r {
    Ok(_) => "ok".into(),
    Err(e) => match e.kind() {
      k @ (std::io::ErrorKind::NotFound | std::io::ErrorKind::AlreadyExists | std::io::ErrorKind::InvalidInput) => format!("err:{:?}", k),
      _ => "err:other".into(),
    },
  }
}

struct Side {
  root: PathBuf,
  files: Vec<Option<vfs::File>>,
}

fn apply(side: &mut Side, op: &(u8, usize, usize, usize, Vec<u8>)) -> String {
  let (kind, a, b, n, data) = op;
  let names = ["f0", "f1", "f2", "sub/g0", "sub/g1"];
  let path = |i: usize| side.root.join(names[i % names.len()]);
  match kind % 14 {
    0 => {
      let r = vfs::File::create(path(*a));
      let o = obs_err(&r);
      side.files[*b % 4] = r.ok();
      format!("create {}", o)
    }
    1 => {
      let r = vfs::File::options().create(true).append(true).read(true).open(path(*a));
      let o = obs_err(&r);
      side.files[*b % 4] = r.ok();
      format!("open_append {}", o)
    }
    2 => {
      let r = vfs::File::open(path(*a));
      let o = obs_err(&r);
      side.files[*b % 4] = r.ok();
      format!("open_read {}", o)
    }
    3 => match side.files[*b % 4].as_mut() {
      Some(f) => {
        let r = f.write(data);
        format!("write {} {:?}", obs_err(&r), r.ok())
      }
      None => "write none".into(),
    },
    4 => match side.files[*b % 4].as_mut() {
      Some(f) => {
        let mut buf = vec![0u8; *n % 64];
        let r = f.read(&mut buf);
        let got = r.as_ref().map(|k| buf[..*k].to_vec()).unwrap_or_default();
        format!("read {} {:?}", obs_err(&r), got)
      }
      None => "read none".into(),
    },
    5 => match side.files[*b % 4].as_mut() {
      Some(f) => {
        let pos = match n % 3 {
          0 => SeekFrom::Start((*a % 40) as u64),
          1 => SeekFrom::End(-((*a % 8) as i64)),
          _ => SeekFrom::Current((*a % 9) as i64 - 4),
        };
        let r = f.seek(pos);
        format!("seek {} {:?}", obs_err(&r), r.ok())
      }
      None => "seek none".into(),
    },
    6 => match side.files[*b % 4].as_ref() {
      Some(f) => {
        let r = f.set_len((*n % 50) as u64);
        format!("set_len {}", obs_err(&r))
      }
      None => "set_len none".into(),
    },
    7 => match side.files[*b % 4].as_ref() {
      Some(f) => format!("sync {}", obs_err(&f.sync_all())),
      None => "sync none".into(),
    },
    8 => {
      let r = vfs::rename(path(*a), path(*n));
      format!("rename {}", obs_err(&r))
    }
    9 => {
      let r = vfs::remove_file(path(*a));
      format!("unlink {}", obs_err(&r))
    }
    10 => {
      let r = vfs::read(path(*a));
      format!("read_all {} {:?}", obs_err(&r), r.ok())
    }
    11 => {
      let r = vfs::create_dir_all(side.root.join("sub"));
      format!("mkdir {}", obs_err(&r))
    }
    12 => format!("exists {}", vfs::VPath::new(&path(*a)).exists()),
    _ => {
      side.files[*b % 4] = None;
      "close".into()
    }
  }
}

pub fn simfs_differential(cases: u64, seed: u64) -> i32 {
  let base = PathBuf::from(format!("/dev/shm/verif-selftest-{}", std::process::id()));
  let mut mismatches = 0u64;
  let mut steps = 0u64;
  for c in 0..cases {
    let mut rng = Rng::new(crate::rng::derive(seed, "selftest.simfs", c));
    let real_root = base.join(format!("c{}", c));
    let _ = std::fs::remove_dir_all(&real_root);
    std::fs::create_dir_all(&real_root).expect("tmpfs dir");
    let sim_root = PathBuf::from("/sim/selftest");
    let fs = SimFs::new(&sim_root);
    vfs::mount(&sim_root, Arc::new(fs));
    let mut real = Side {
      root: real_root.clone(),
      files: vec![None, None, None, None],
    };
    let mut sim = Side {
      root: sim_root.clone(),
      files: vec![None, None, None, None],
    };
    let len = 10 + rng.usize(60);
    let mut log: Vec<String> = Vec::new();
    for _ in 0..len {
      let dlen = 1 + rng.usize(12);
      let op = (rng.below(14) as u8, rng.usize(8), rng.usize(8), rng.usize(200), (0..dlen).map(|_| rng.below(256) as u8).collect::<Vec<u8>>());
      let a = apply(&mut real, &op);
      let b = apply(&mut sim, &op);
      steps += 1;
      log.push(format!("{:?} -> real `{}` sim `{}`", (op.0 % 14, op.1, op.2, op.3), a, b));
      if a != b {
        mismatches += 1;
        println!("MISMATCH in case {}:", c);
        for l in log.iter().rev().take(12).rev() {
          println!("  {}", l);
        }
        break;
      }
    }
    drop(real);
    drop(sim);
    vfs::unmount(&sim_root);
    let _ = std::fs::remove_dir_all(&real_root);
  }
  let _ = std::fs::remove_dir_all(&base);
  println!("simfs differential: {} cases, {} primitive calls compared, {} mismatches", cases, steps, mismatches);
  let _ = Path::new("/");
  if mismatches == 0 {
    0
  } else {
    1
  }
}
