//! One integer decides everything: SplitMix64 seeding a Xoshiro256**.
//! No draw ever happens in a logging path.

#[derive(Clone, Debug)]
pub struct Rng {
  s: [u64; 4],
  pub draws: u64,
}

pub fn splitmix(x: &mut u64) -> u64 {
  *x = x.wrapping_add(0x9E37_79B9_7F4A_7C15);
  let mut z = *x;
  z = (z ^ (z >> 30)).wrapping_mul(0xBF58_476D_1CE4_E5B9);
  z = (z ^ (z >> 27)).wrapping_mul(0x94D0_49BB_1331_11EB);
  z ^ (z >> 31)
}

/// Derive the seed of run `i` of `engine` from the base seed.
pub fn derive(base: u64, engine: &str, i: u64) -> u64 {
  let mut x = base ^ 0xA076_1D64_78BD_642F;
  for b in engine.bytes() {
    x = x.wrapping_mul(0x100_0000_01B3) ^ b as u64;
    splitmix(&mut x);
  }
  x ^= i.wrapping_mul(0xE703_7ED1_A0B4_28DB);
  splitmix(&mut x)
}

impl Rng {
  pub fn new(seed: u64) -> Self {
    let mut x = seed;
    let s = [
      splitmix(&mut x),
      splitmix(&mut x),
      splitmix(&mut x),
      splitmix(&mut x),
    ];
    Rng { s, draws: 0 }
  }

  pub fn next(&mut self) -> u64 {
    self.draws += 1;
    let r = self.s[1].wrapping_mul(5).rotate_left(7).wrapping_mul(9);
    let t = self.s[1] << 17;
    self.s[2] ^= self.s[0];
    self.s[3] ^= self.s[1];
    self.s[1] ^= self.s[2];
    self.s[0] ^= self.s[3];
    self.s[2] ^= t;
    self.s[3] = self.s[3].rotate_left(45);
    r
  }

  /// Uniform in 0..n (n > 0).
  pub fn below(&mut self, n: u64) -> u64 {
    debug_assert!(n > 0);
    ((self.next() as u128 * n as u128) >> 64) as u64
  }

  pub fn usize(&mut self, n: usize) -> usize {
    self.below(n as u64) as usize
  }

  /// Inclusive range.
  pub fn range(&mut self, lo: u64, hi: u64) -> u64 {
    lo + self.below(hi - lo + 1)
  }

  pub fn chance(&mut self, num: u64, den: u64) -> bool {
    self.below(den) < num
  }

  pub fn pick<'a, T>(&mut self, xs: &'a [T]) -> &'a T {
    &xs[self.usize(xs.len())]
  }

  /// Weighted choice; returns the index.
  pub fn weighted(&mut self, weights: &[u32]) -> usize {
    let total: u64 = weights.iter().map(|w| *w as u64).sum();
    let mut r = self.below(total.max(1));
    for (i, w) in weights.iter().enumerate() {
      if r < *w as u64 {
        return i;
      }
      r -= *w as u64;
    }
    weights.len() - 1
  }
}

/// Deterministic 64-bit hash (FNV-1a then mixed); used for image/content
/// fingerprints. Independent of `RandomState`.
pub fn hash_bytes(seed: u64, data: &[u8]) -> u64 {
  let mut h: u64 = 0xcbf2_9ce4_8422_2325 ^ seed;
  for b in data {
    h ^= *b as u64;
    h = h.wrapping_mul(0x100_0000_01B3);
  }
  let mut x = h;
  splitmix(&mut x)
}
