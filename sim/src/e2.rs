//! E2 `sched`: seeded interleavings of writer, compactor and reader threads
//! under the baton scheduler (C05, C06). The recorded history is checked for
//! linearizability against the reference model (Wing-Gong search, memoised).

use std::collections::{BTreeMap, HashSet};
use std::panic::{catch_unwind, AssertUnwindSafe};
use std::path::Path;
use std::sync::{Arc, Mutex};

use searchlite_core::api::{Index, IndexReader, IndexWriter};
use searchlite_core::verif;
use serde::{Deserialize, Serialize};
use serde_json::{json, Value};

use crate::kit::{Stats, Violation};
use crate::model::{contents_short, Contents, Model};
use crate::rng::{hash_bytes, Rng};
use crate::sched::{Hooks, Policy, Sched, SchedAbort};
use crate::simfs::SimFs;
use crate::work::*;

#[derive(Clone, Debug, Serialize, Deserialize, PartialEq)]
#[serde(rename_all = "snake_case")]
pub enum TOp {
  NewWriter,
  Add { id: String, ver: u64 },
  Delete { id: String },
  Commit,
  Rollback,
  DropWriter,
  Compact,
  OpenReader,
  Search,
}

impl TOp {
  pub fn short(&self) -> String {
    match self {
      TOp::NewWriter => "writer()".into(),
      TOp::Add { id, ver } => format!("add({}@{})", id, ver),
      TOp::Delete { id } => format!("delete({})", id),
      TOp::Commit => "commit()".into(),
      TOp::Rollback => "rollback()".into(),
      TOp::DropWriter => "drop(writer)".into(),
      TOp::Compact => "compact()".into(),
      TOp::OpenReader => "reader()".into(),
      TOp::Search => "search()".into(),
    }
  }
  fn is_reader(&self) -> bool {
    matches!(self, TOp::OpenReader | TOp::Search)
  }
}

#[derive(Clone, Debug, Serialize, Deserialize, PartialEq)]
pub struct SchedCase {
  pub cfg: Cfg,
  pub setup: Vec<Op>,
  pub threads: Vec<Vec<TOp>>,
  pub policy: Policy,
  pub sched_seed: u64,
  pub budget: u64,
  /// explicit schedule (thread id per decision); when present the PRNG is not consulted
  #[serde(default)]
  pub schedule: Option<Vec<u8>>,
}

pub fn gen_case(rng: &mut Rng, reader_heavy: bool, thorough: bool) -> SchedCase {
  // a quarter of the reader-heavy cases run on InMemoryStorage (kept readers
  // share buffers with the storage there); one writer thread then, because what
  // overlapping handles inherit from each other is only judged on FsStorage
  let in_memory = reader_heavy && rng.chance(1, 4);
  let cfg = Cfg {
    storage: if in_memory { StorageKind::Mem } else { StorageKind::Fs },
    profile: *rng.pick(&[Profile::Basic, Profile::Basic, Profile::Nested, Profile::Rich]),
    positions: rng.chance(1, 2),
    ids: 1 + rng.usize(3),
    transparent: false,
    odd_ids: rng.chance(1, 4),
  };
  let ids: Vec<String> = id_names(&cfg);
  let mut ver = 1u64;
  // sequential setup: 0-2 committed batches so that compaction has work
  let mut setup = vec![Op::NewWriter { h: 99 }];
  let batches = rng.usize(3) + if reader_heavy { 1 } else { 0 };
  for _ in 0..batches {
    for _ in 0..1 + rng.usize(2) {
      setup.push(Op::Add {
        h: 99,
        id: rng.pick(&ids).clone(),
        ver,
      });
      ver += 1;
    }
    setup.push(Op::Commit { h: 99 });
  }
  if rng.chance(1, 3) {
    // leave something queued in the shared log
    setup.push(Op::Add {
      h: 99,
      id: rng.pick(&ids).clone(),
      ver,
    });
    ver += 1;
  }
  setup.push(Op::DropWriter { h: 99 });
  let nwriters = if in_memory {
    1
  } else if reader_heavy {
    1 + rng.usize(2)
  } else {
    2 + rng.usize(if thorough { 3 } else { 2 })
  };
  let mut threads: Vec<Vec<TOp>> = Vec::new();
  for _ in 0..nwriters {
    let mut ops = vec![TOp::NewWriter];
    let n = 1 + rng.usize(if reader_heavy { 3 } else { 4 });
    let mut live = true;
    for _ in 0..n {
      if !live {
        ops.push(TOp::NewWriter);
        live = true;
        continue;
      }
      match rng.weighted(&[40, 14, 30, 6, 6]) {
        0 => {
          ops.push(TOp::Add {
            id: rng.pick(&ids).clone(),
            ver,
          });
          ver += 1;
        }
        1 => ops.push(TOp::Delete { id: rng.pick(&ids).clone() }),
        2 => ops.push(TOp::Commit),
        3 => ops.push(TOp::Rollback),
        _ => {
          ops.push(TOp::DropWriter);
          live = false;
        }
      }
    }
    if live && rng.chance(2, 3) {
      ops.push(TOp::Commit);
    }
    threads.push(ops);
  }
  if !reader_heavy && !in_memory && rng.chance(1, 8) {
    // scenario: one handle empties the index, compaction runs, another handle
    // refills it with a few commits, the first handle touches what was added
    threads.clear();
    let mut a = vec![TOp::NewWriter];
    for id in ids.iter() {
      a.push(TOp::Delete { id: id.clone() });
    }
    a.push(TOp::Commit);
    if rng.chance(1, 2) {
      a.push(TOp::Add { id: ids[0].clone(), ver });
      ver += 1;
    } else {
      a.push(TOp::Delete { id: ids[0].clone() });
    }
    a.push(TOp::Commit);
    threads.push(a);
    let mut b = vec![TOp::NewWriter];
    for i in 0..1 + rng.usize(3) {
      b.push(TOp::Add { id: ids[i % ids.len()].clone(), ver });
      ver += 1;
      b.push(TOp::Commit);
    }
    threads.push(b);
    threads.push(vec![TOp::Compact]);
  } else if rng.chance(if reader_heavy { 3 } else { 1 }, 4) {
    let n = 1 + rng.usize(2);
    threads.push((0..n).map(|_| TOp::Compact).collect());
  }
  let nreaders = if reader_heavy { 1 + rng.usize(2) } else { rng.usize(2) };
  for _ in 0..nreaders {
    let mut ops = Vec::new();
    for _ in 0..1 + rng.usize(2) {
      ops.push(TOp::OpenReader);
      for _ in 0..1 + rng.usize(2) {
        ops.push(TOp::Search);
      }
    }
    threads.push(ops);
  }
  SchedCase {
    cfg,
    setup,
    threads,
    policy: *rng.pick(&[Policy::Random, Policy::Sticky, Policy::Sticky, Policy::Pct]),
    sched_seed: rng.next(),
    budget: 20_000,
    schedule: None,
  }
}

#[derive(Clone, Debug, PartialEq)]
pub enum HRes {
  /// not applicable (no handle / reader): not part of the history
  Skipped,
  Ok,
  Index(u32),
  Read(Contents),
  Err(String),
  Panic(String),
}

#[derive(Clone, Debug)]
pub struct HEvent {
  pub tid: usize,
  pub k: usize,
  pub op: TOp,
  pub inv: u64,
  pub ret: u64,
  pub res: HRes,
}

pub struct SchedRun {
  pub violations: Vec<Violation>,
  pub trace: Vec<String>,
  pub schedule: Vec<u8>,
}

fn model_key(m: &Model) -> u64 {
  let mut s = String::new();
  for (id, v) in &m.committed {
    s.push_str(&format!("{}@{};", id, v.ver));
  }
  s.push('|');
  for o in &m.log {
    s.push_str(&o.short());
    s.push(',');
  }
  for (h, q) in &m.handles {
    s.push_str(&format!("|{}:", h));
    for o in q {
      s.push_str(&o.short());
      s.push(',');
    }
  }
  hash_bytes(3, s.as_bytes())
}

/// Apply one event to the model; false when the observed result is impossible
/// at this point of the serial order.
fn apply(model: &mut Model, profile: Profile, e: &HEvent) -> bool {
  let h = e.tid;
  match &e.op {
    TOp::NewWriter => {
      model.new_writer(h);
      e.res == HRes::Ok
    }
    TOp::Add { id, ver } => {
      if !model.handles.contains_key(&h) {
        return false;
      }
      let i = model.add(h, id, version_of(profile, id, *ver));
      e.res == HRes::Index(i)
    }
    TOp::Delete { id } => {
      if !model.handles.contains_key(&h) {
        return false;
      }
      model.delete(h, id);
      e.res == HRes::Ok
    }
    TOp::Commit => {
      if !model.handles.contains_key(&h) {
        return false;
      }
      model.commit(h);
      e.res == HRes::Ok
    }
    TOp::Rollback => {
      if !model.handles.contains_key(&h) {
        return false;
      }
      model.rollback(h);
      e.res == HRes::Ok
    }
    TOp::DropWriter => {
      model.drop_writer(h);
      e.res == HRes::Ok
    }
    TOp::Compact => e.res == HRes::Ok,
    TOp::OpenReader => match &e.res {
      HRes::Read(c) => c == &model.committed,
      _ => false,
    },
    TOp::Search => true,
  }
}

/// Wing-Gong linearizability search with memoisation on
/// (linearised set, model state).
pub fn linearizable(initial: &Model, profile: Profile, events: &[HEvent], explored: &mut u64) -> bool {
  let n = events.len();
  if n > 60 {
    return true; // bounded: never reached by the generators
  }
  let all: u64 = if n == 64 { u64::MAX } else { (1u64 << n) - 1 };
  let mut memo: HashSet<(u64, u64)> = HashSet::new();
  fn rec(done: u64, all: u64, model: &Model, profile: Profile, events: &[HEvent], memo: &mut HashSet<(u64, u64)>, explored: &mut u64) -> bool {
    if done == all {
      return true;
    }
    let key = (done, model_key(model));
    if memo.contains(&key) {
      return false;
    }
    *explored += 1;
    let min_ret = events.iter().enumerate().filter(|(i, _)| done & (1 << i) == 0).map(|(_, e)| e.ret).min().unwrap();
    for (i, e) in events.iter().enumerate() {
      if done & (1 << i) != 0 {
        continue;
      }
      if e.inv > min_ret {
        continue;
      }
      let mut m = model.clone();
      if apply(&mut m, profile, e) && rec(done | (1 << i), all, &m, profile, events, memo, explored) {
        return true;
      }
    }
    memo.insert(key);
    false
  }
  rec(0, all, initial, profile, events, &mut memo, explored)
}

fn history_text(events: &[HEvent]) -> String {
  let mut ev: Vec<&HEvent> = events.iter().collect();
  ev.sort_by_key(|e| e.inv);
  ev.iter()
    .map(|e| {
      let r = match &e.res {
        HRes::Ok | HRes::Skipped => "ok".to_string(),
        HRes::Index(i) => format!("ok({})", i),
        HRes::Read(c) => format!("{:?}", contents_short(c)),
        HRes::Err(s) => format!("err({})", s),
        HRes::Panic(s) => format!("PANIC({})", s),
      };
      format!("t{}.{}[{}..{}]={}", e.tid, e.op.short(), e.inv, e.ret, r)
    })
    .collect::<Vec<_>>()
    .join("  ")
}

pub fn run_case(case: &SchedCase, wroot: &Path, stats: &mut Stats) -> SchedRun {
  let ids = SimIds::new();
  install_ids(&ids);
  let mut run = SchedRun {
    violations: Vec::new(),
    trace: Vec::new(),
    schedule: Vec::new(),
  };
  let cfg = &case.cfg;
  let fs = SimFs::new(wroot);
  fs.with(|c| c.record = false);
  verif::fs::mount(wroot, Arc::new(fs.clone()));
  let root = wroot.join("a");
  let mut session = match Session::create(cfg, &root, Some(fs.clone())) {
    Ok(s) => s,
    Err(o) => {
      run.violations.push(Violation::new(&["C05", "C06"], "setup-failed", "create", 0, o.short()));
      return run;
    }
  };
  let mut model = Model::new(false);
  for op in &case.setup {
    if !session.applicable(op) {
      continue;
    }
    let o = session.exec(op);
    if !o.is_ok() {
      run.violations.push(Violation::new(&["C05", "C06"], "setup-failed", op.kind(), 0, format!("{} -> {}", op.short(), o.short())));
      return run;
    }
    match op {
      Op::NewWriter { h } => model.new_writer(*h),
      Op::Add { h, id, ver } => {
        model.add(*h, id, version_of(cfg.profile, id, *ver));
      }
      Op::Delete { h, id } => model.delete(*h, id),
      Op::Commit { h } => model.commit(*h),
      Op::DropWriter { h } => model.drop_writer(*h),
      _ => {}
    }
  }
  session.writers.clear();
  model.handles.clear();
  let index: Index = session.index.take().unwrap();
  let nthreads = case.threads.len();
  if nthreads == 0 {
    return run;
  }
  let sched = Sched::new(nthreads, case.sched_seed, case.policy, case.budget, case.schedule.clone());
  {
    let s2 = sched.clone();
    fs.set_hook(Some(Arc::new(move |prim, _path| s2.yield_now(prim.name()))));
  }
  let history: Mutex<Vec<HEvent>> = Mutex::new(Vec::new());
  let snapshot_breaks: Mutex<Vec<String>> = Mutex::new(Vec::new());
  std::thread::scope(|scope| {
    for (tid, prog) in case.threads.iter().enumerate() {
      let sched = sched.clone();
      let ids = ids.clone();
      let index = &index;
      let history = &history;
      let snapshot_breaks = &snapshot_breaks;
      let profile = cfg.profile;
      std::thread::Builder::new()
        .stack_size(8 << 20)
        .spawn_scoped(scope, move || {
          install_ids(&ids);
          verif::sync::set_thread_hooks(Some(Arc::new(Hooks { sched: sched.clone() })));
          let started = catch_unwind(AssertUnwindSafe(|| sched.thread_start(tid)));
          if started.is_ok() {
            let body = catch_unwind(AssertUnwindSafe(|| {
              let mut writer: Option<IndexWriter> = None;
              let mut reader: Option<(IndexReader, Contents)> = None;
              for (k, op) in prog.iter().enumerate() {
                let inv = sched.stamp();
                let res: HRes = {
                  let r = catch_unwind(AssertUnwindSafe(|| -> anyhow::Result<HRes> {
                    Ok(match op {
                      TOp::NewWriter => {
                        writer = None;
                        writer = Some(index.writer()?);
                        HRes::Ok
                      }
                      TOp::Add { id, ver } => match writer.as_mut() {
                        Some(w) => HRes::Index(w.add_document(&make_doc(profile, id, *ver))?),
                        None => HRes::Skipped,
                      },
                      TOp::Delete { id } => match writer.as_mut() {
                        Some(w) => {
                          w.delete_document(id)?;
                          HRes::Ok
                        }
                        None => HRes::Skipped,
                      },
                      TOp::Commit => match writer.as_mut() {
                        Some(w) => {
                          w.commit()?;
                          HRes::Ok
                        }
                        None => HRes::Skipped,
                      },
                      TOp::Rollback => match writer.as_mut() {
                        Some(w) => {
                          w.rollback()?;
                          HRes::Ok
                        }
                        None => HRes::Skipped,
                      },
                      TOp::DropWriter => {
                        writer = None;
                        HRes::Ok
                      }
                      TOp::Compact => {
                        index.compact()?;
                        HRes::Ok
                      }
                      TOp::OpenReader => {
                        reader = None;
                        let r = index.reader()?;
                        let c = search_all(&r)?.to_contents().map_err(|e| anyhow::anyhow!(e))?;
                        reader = Some((r, c.clone()));
                        HRes::Read(c)
                      }
                      TOp::Search => match reader.as_ref() {
                        Some((r, first)) => {
                          let c = search_all(r)?.to_contents().map_err(|e| anyhow::anyhow!(e))?;
                          if &c != first {
                            snapshot_breaks.lock().unwrap().push(format!(
                              "t{} reader opened at {:?} later returned {:?}",
                              tid,
                              contents_short(first),
                              contents_short(&c)
                            ));
                          }
                          HRes::Read(c)
                        }
                        None => HRes::Skipped,
                      },
                    })
                  }));
                  match r {
                    Ok(Ok(h)) => h,
                    Ok(Err(e)) => HRes::Err(format!("{:#}", e)),
                    Err(p) => {
                      if p.downcast_ref::<SchedAbort>().is_some() {
                        std::panic::resume_unwind(p);
                      }
                      HRes::Panic(panic_msg(p))
                    }
                  }
                };
                let ret = sched.stamp();
                if res == HRes::Skipped {
                  continue;
                }
                history.lock().unwrap().push(HEvent {
                  tid,
                  k,
                  op: op.clone(),
                  inv,
                  ret,
                  res,
                });
                sched.yield_now("op");
              }
              drop(writer);
              drop(reader);
            }));
            let _ = body;
          }
          verif::sync::set_thread_hooks(None);
          sched.thread_finish(tid);
        })
        .expect("spawn sim thread");
    }
    sched.start();
  });
  fs.set_hook(None);
  let (schedule, aborted, steps, switches, lock_waits, misses, strace) = sched.with(|s| {
    (
      s.schedule.clone(),
      s.aborted.clone(),
      s.steps,
      s.context_switches,
      s.lock_waits,
      s.forced_misses,
      std::mem::take(&mut s.trace),
    )
  });
  run.schedule = schedule.clone();
  stats.add("steps", steps);
  stats.add("probe.context_switches", switches);
  stats.add("probe.lock_waits", lock_waits);
  stats.add("probe.forced_schedule_misses", misses);
  stats.inc("evaluations");
  let mut events = history.into_inner().unwrap();
  events.sort_by_key(|e| (e.tid, e.k));
  run.trace = strace;
  run.trace.push(format!("schedule {:?}", schedule));
  for e in &events {
    run.trace.push(format!("t{} {} {} [{}..{}] {}", e.tid, e.k, e.op.short(), e.inv, e.ret, matches!(e.res, HRes::Err(_) | HRes::Panic(_))));
  }
  stats.fingerprints.insert(hash_bytes(5, &schedule));
  let hist = history_text(&events);
  if let Some(why) = aborted {
    run.violations.push(Violation::new(&["C05"], "no-progress", "scheduler", steps as usize, format!("{}; history so far: {}", why, hist)));
    verif::fs::unmount(wroot);
    return run;
  }
  // ---- no call may fail or panic in a fault-free run
  for e in &events {
    let props: &[&'static str] = if e.op.is_reader() { &["C06"] } else { &["C05"] };
    match &e.res {
      HRes::Panic(p) => {
        run.violations.push(Violation::new(props, "panic", &format!("{:?}", std::mem::discriminant(&e.op)), e.k, format!("t{}.{} panicked: {}; history: {}", e.tid, e.op.short(), p, hist)));
      }
      HRes::Err(s) => {
        let class = if e.op.is_reader() { "reader-failed" } else { "call-failed" };
        let kind = e.op.short();
        let site = kind.split('(').next().unwrap_or("").to_string();
        run
          .violations
          .push(Violation::new(props, class, &site, e.k, format!("t{}.{} failed in a fault-free run: {}; history: {}", e.tid, e.op.short(), s, hist)));
      }
      _ => {}
    }
  }
  for b in snapshot_breaks.into_inner().unwrap() {
    run.violations.push(Violation::new(&["C06"], "reader-snapshot-changed", "search", 0, format!("{}; history: {}", b, hist)));
  }
  if !run.violations.is_empty() {
    verif::fs::unmount(wroot);
    return run;
  }
  // ---- final state, live and from disk
  let end = sched.stamp();
  let live = observe_index(&index).map_err(|o| o.short()).and_then(|o| o.to_contents());
  drop(index);
  let disk = if cfg.storage == StorageKind::Mem {
    session.open_fresh_index().map_err(|o| o.short()).and_then(|i| observe_index(&i).map_err(|o| o.short())).and_then(|o| o.to_contents())
  } else {
    Session::open(cfg, &root, Some(fs.clone())).map_err(|o| o.short()).and_then(|s| s.observe().map_err(|o| o.short())).and_then(|o| o.to_contents())
  };
  if cfg.storage == StorageKind::Mem {
    stats.inc("probe.in_memory_storage_runs");
  }
  let (live, disk) = match (live, disk) {
    (Ok(l), Ok(d)) => (l, d),
    (l, d) => {
      run.violations.push(Violation::new(
        &["C05"],
        "final-state-unreadable",
        "final",
        0,
        format!("after the run: live reader {:?}, Index::open from disk {:?}; history: {}", l.map(|c| contents_short(&c)), d.map(|c| contents_short(&c)), hist),
      ));
      verif::fs::unmount(wroot);
      return run;
    }
  };
  if live != disk {
    run.violations.push(Violation::new(
      &["C05"],
      "final-state-diverged",
      "final",
      0,
      format!("after the run a live reader shows {:?} but reopening from disk shows {:?}; history: {}", contents_short(&live), contents_short(&disk), hist),
    ));
  }
  // ---- serializability of the writer-side history (C05)
  let mut writer_events: Vec<HEvent> = events.iter().filter(|e| !e.op.is_reader()).cloned().collect();
  writer_events.push(HEvent {
    tid: 1000,
    k: 0,
    op: TOp::OpenReader,
    inv: end,
    ret: end + 1,
    res: HRes::Read(live.clone()),
  });
  let mut explored = 0u64;
  let ok05 = linearizable(&model, cfg.profile, &writer_events, &mut explored);
  stats.add("probe.linearization_states", explored);
  if !ok05 {
    run.violations.push(Violation::new(
      &["C05"],
      "not-serializable",
      "history",
      0,
      format!("no serial order of the calls explains the observed results and the final contents {:?}; history: {}", contents_short(&live), hist),
    ));
  } else {
    // ---- every reader open shows one committed state of that order (C06)
    let mut all: Vec<HEvent> = events.iter().filter(|e| !matches!(e.op, TOp::Search)).cloned().collect();
    if all.iter().any(|e| e.op.is_reader()) {
      all.push(writer_events.last().unwrap().clone());
      let mut explored2 = 0u64;
      let ok06 = linearizable(&model, cfg.profile, &all, &mut explored2);
      stats.add("probe.linearization_states", explored2);
      stats.inc("probe.reader_histories_checked");
      if !ok06 {
        run.violations.push(Violation::new(
          &["C06"],
          "reader-inconsistent-snapshot",
          "history",
          0,
          format!("some reader's results equal no committed state between its open's invocation and return; history: {}", hist),
        ));
      }
    }
  }
  if events.iter().any(|e| matches!(e.op, TOp::Compact)) && events.iter().any(|e| e.op.is_reader()) {
    stats.inc("probe.reader_with_concurrent_compaction");
  }
  verif::fs::unmount(wroot);
  run
}

pub fn shrink_candidates(case: &SchedCase) -> Vec<SchedCase> {
  let mut out = Vec::new();
  // the candidates keep the (soft-replayed) schedule
  for t in 0..case.threads.len() {
    if case.threads.len() > 1 {
      let mut c = case.clone();
      c.threads.remove(t);
      // renumber the schedule
      if let Some(s) = c.schedule.as_mut() {
        s.retain(|x| *x as usize != t);
        for x in s.iter_mut() {
          if *x as usize > t {
            *x -= 1;
          }
        }
      }
      out.push(c);
    }
  }
  for t in 0..case.threads.len() {
    for i in (0..case.threads[t].len()).rev() {
      let mut c = case.clone();
      c.threads[t].remove(i);
      out.push(c);
    }
  }
  for i in (0..case.setup.len()).rev() {
    let mut c = case.clone();
    c.setup.remove(i);
    out.push(c);
  }
  // fewer context switches
  if let Some(s) = &case.schedule {
    for i in 1..s.len() {
      if s[i] != s[i - 1] {
        let mut c = case.clone();
        let sch = c.schedule.as_mut().unwrap();
        sch[i] = sch[i - 1];
        out.push(c);
      }
    }
  }
  if case.cfg.profile != Profile::Basic {
    let mut c = case.clone();
    c.cfg.profile = Profile::Basic;
    out.push(c);
  }
  out
}

pub fn sample_json(case: &SchedCase) -> Value {
  json!({
    "cfg": case.cfg,
    "setup": case.setup.iter().map(|o| o.short()).collect::<Vec<_>>(),
    "threads": case.threads.iter().map(|t| t.iter().map(|o| o.short()).collect::<Vec<_>>()).collect::<Vec<_>>(),
    "policy": case.policy,
    "schedule": case.schedule.as_ref().map(|s| s.iter().map(|x| x.to_string()).collect::<Vec<_>>().join("")),
  })
}

pub fn count_switches(s: &[u8]) -> usize {
  s.windows(2).filter(|w| w[0] != w[1]).count()
}

pub type _Unused = BTreeMap<u8, u8>;
