fn main() {
  std::process::exit(sim::cli::main());
}
