//! E1 `fault`: storage errors during add / delete / commit / rollback /
//! compaction (C03). The fault-free prefix is followed by one target call; the
//! target's FS primitives are counted once, then the whole history is
//! re-executed once per (primitive index, fault kind) - and per ordered pair in
//! the thorough tier.

use std::path::Path;
use std::sync::Arc;

use searchlite_core::verif;
use serde::{Deserialize, Serialize};
use serde_json::{json, Value};

use crate::kit::{Stats, Violation};
use crate::model::{contents_short, fold, Contents, Model, QOp};
use crate::rng::Rng;
use crate::simfs::{Fault, FaultKind, Prim, SimFs};
use crate::work::*;

#[derive(Clone, Debug, Serialize, Deserialize, PartialEq)]
pub struct FaultSpec {
  pub at: u64,
  pub kind: String,
}

#[derive(Clone, Debug, Serialize, Deserialize, PartialEq)]
pub struct FaultCase {
  pub cfg: Cfg,
  pub prefix: Vec<Op>,
  pub target: Op,
  /// number of second faults to try per first fault (0 = singles only,
  /// u32::MAX = every ordered pair)
  pub pairs: u32,
  pub pair_seed: u64,
  #[serde(default)]
  pub pin: Option<Vec<FaultSpec>>,
}

pub fn gen_case(rng: &mut Rng, thorough: bool) -> FaultCase {
  let cfg = Cfg {
    storage: StorageKind::Fs,
    profile: *rng.pick(&[Profile::Basic, Profile::Basic, Profile::Nested, Profile::Rich]),
    positions: rng.chance(1, 2),
    ids: 2 + rng.usize(3),
    transparent: false,
    odd_ids: rng.chance(1, 4),
  };
  let ids: Vec<String> = id_names(&cfg);
  let mut ver = 1u64;
  // swarm: long documents in one case of six (files and log records written
  // with several write calls: faults between the writes of one file)
  let big = rng.chance(1, 6);
  let mut prefix = vec![Op::NewWriter { h: 0 }];
  let rounds = rng.usize(4);
  let mut pending = 0usize;
  let mut batch = |rng: &mut Rng, prefix: &mut Vec<Op>, n: usize, pending: &mut usize| {
    for _ in 0..n {
      if rng.chance(3, 4) {
        let long = big && rng.chance(1, 2);
        prefix.push(Op::Add {
          h: 0,
          id: rng.pick(&ids).clone(),
          ver: if long { ver + BIG_VERSIONS } else { ver },
        });
        ver += 1;
      } else {
        prefix.push(Op::Delete {
          h: 0,
          id: rng.pick(&ids).clone(),
        });
      }
      *pending += 1;
    }
  };
  for _ in 0..rounds {
    let n = 1 + rng.usize(3);
    batch(rng, &mut prefix, n, &mut pending);
    prefix.push(Op::Commit { h: 0 });
    pending = 0;
    match rng.below(8) {
      0 => prefix.push(Op::Compact),
      1 => {
        prefix.push(Op::Reopen);
        prefix.push(Op::NewWriter { h: 0 });
      }
      2 => {
        prefix.push(Op::DropWriter { h: 0 });
        prefix.push(Op::NewWriter { h: 0 });
      }
      _ => {}
    }
  }
  let n = rng.usize(4);
  batch(rng, &mut prefix, n, &mut pending);
  // the target call is often the first thing a handle does over a log that an
  // earlier handle (or process) filled
  match rng.below(6) {
    0 => {
      prefix.push(Op::DropWriter { h: 0 });
      prefix.push(Op::NewWriter { h: 0 });
    }
    1 => {
      prefix.push(Op::Reopen);
      prefix.push(Op::NewWriter { h: 0 });
    }
    _ => {}
  }
  let target = match rng.below(20) {
    0..=8 => {
      if pending == 0 {
        let n = 1 + rng.usize(2);
        batch(rng, &mut prefix, n, &mut pending);
      }
      Op::Commit { h: 0 }
    }
    9..=11 => Op::Add {
      h: 0,
      id: rng.pick(&ids).clone(),
      // (with long documents: a version whose document is well beyond 64 KiB)
      ver: if big {
        (5001..5200u64)
          .map(|k| k + BIG_VERSIONS)
          .find(|v| serde_json::to_string(&make_doc(cfg.profile, "zz", *v).fields).map(|s| s.len()).unwrap_or(0) > 80_000)
          .unwrap_or(5000 + BIG_VERSIONS)
      } else {
        5000
      },
    },
    12..=13 => Op::Delete {
      h: 0,
      id: rng.pick(&ids).clone(),
    },
    14..=15 => Op::Rollback { h: 0 },
    _ => Op::Compact,
  };
  FaultCase {
    cfg,
    prefix,
    target,
    pairs: if thorough { u32::MAX } else { 2 },
    pair_seed: rng.next(),
    pin: None,
  }
}

struct Attempt {
  /// number of fault-eligible primitives the target call issued
  prims: u64,
  trace: Vec<Prim>,
  fired: Vec<(u64, Prim, FaultKind)>,
  violation: Option<Violation>,
  outcome_ok: bool,
  sticky_hits: u64,
}

fn contents_of(index: &searchlite_core::api::Index) -> Result<Contents, String> {
  observe_index(index).map_err(|o| o.short())?.to_contents()
}

fn plan_site(target: &Op, fired: &[(u64, Prim, FaultKind)]) -> String {
  let f: Vec<String> = fired.iter().map(|(_, p, k)| format!("{}@{}", k.name(), p.name())).collect();
  format!("{}:{}", target.kind(), f.join("+"))
}

/// One full re-execution with the given fault plan armed around the target.
fn attempt(case: &FaultCase, wroot: &Path, plan: &[Fault], stats: &mut Stats) -> Attempt {
  let ids = SimIds::new();
  install_ids(&ids);
  let cfg = &case.cfg;
  let fs = SimFs::new(wroot);
  fs.with(|c| c.record = false);
  verif::fs::mount(wroot, Arc::new(fs.clone()));
  let root = wroot.join("a");
  let mut out = Attempt {
    prims: 0,
    trace: Vec::new(),
    fired: Vec::new(),
    violation: None,
    outcome_ok: false,
    sticky_hits: 0,
  };
  let mut double = plan.len() > 1;
  let props: &[&'static str] = &["C03"];
  macro_rules! fail {
    ($class:expr, $detail:expr) => {{
      let site = plan_site(&case.target, &out.fired);
      out.violation = Some(Violation::new(props, $class, &site, case.prefix.len(), $detail));
      return out;
    }};
  }
  let mut session = match Session::create(cfg, &root, Some(fs.clone())) {
    Ok(s) => s,
    Err(o) => fail!("prefix-failed", format!("create -> {}", o.short())),
  };
  let mut model = Model::new(false);
  for op in &case.prefix {
    if !session.applicable(op) {
      continue;
    }
    let o = session.exec(op);
    if !o.is_ok() {
      fail!("prefix-failed", format!("fault-free prefix op {} -> {}", op.short(), o.short()));
    }
    match op {
      Op::NewWriter { h } => model.new_writer(*h),
      Op::Add { h, id, ver } => {
        model.add(*h, id, version_of(cfg.profile, id, *ver));
      }
      Op::Delete { h, id } => model.delete(*h, id),
      Op::Commit { h } => model.commit(*h),
      Op::Rollback { h } => model.rollback(*h),
      Op::DropWriter { h } => model.drop_writer(*h),
      Op::Compact => {
        let _ = model.compact();
      }
      Op::Reopen => model.reopen(),
      _ => {}
    }
  }
  if !session.applicable(&case.target) {
    return out;
  }
  let s_pre = model.committed.clone();
  let q_pre: Vec<QOp> = model.handles.get(&0).cloned().unwrap_or_default();
  let adds_pre = q_pre.iter().filter(|o| matches!(o, QOp::Add { .. })).count() as u32;
  let s_commit = fold(&s_pre, &q_pre);
  // ---- the target call under faults
  fs.arm(plan.to_vec());
  let outcome = session.exec(&case.target);
  let (prims, trace, fired, sticky) = fs.with(|c| (c.prim_count, c.prim_trace.clone(), c.fired.clone(), c.stats.enospc_sticky_hits));
  fs.disarm();
  out.prims = prims;
  out.trace = trace;
  out.fired = fired;
  out.sticky_hits = sticky;
  out.outcome_ok = outcome.is_ok();
  for (_, _, k) in &out.fired {
    stats.inc(&format!("fault.{}", k.name()));
  }
  if out.sticky_hits > 0 {
    // a full disk fails every later allocating call of the target as well:
    // that is a fault sequence, judged like a double fault
    stats.inc("fault.enospc_followup_failures");
    double = true;
  }
  if !plan.is_empty() && out.fired.len() < plan.len() {
    // the plan did not (fully) fire: not a faulted execution of interest
    stats.inc("plans_not_fired");
  }
  stats.inc("evaluations");
  stats.sites.insert(plan_site(&case.target, &out.fired));
  if let Outcome::Panic(p) = &outcome {
    fail!("panic", format!("{} panicked under {:?}: {}", case.target.short(), out.fired, p));
  }
  // expected committed state for Ok / Err
  let (s_ok, s_err) = match &case.target {
    Op::Commit { .. } => (s_commit.clone(), s_pre.clone()),
    _ => (s_pre.clone(), s_pre.clone()),
  };
  let index = session.index.as_ref().unwrap();
  let live = contents_of(index);
  let disk = session.open_fresh_index().map_err(|o| o.short()).and_then(|i| contents_of(&i));
  let describe = |c: &Result<Contents, String>| match c {
    Ok(c) => format!("{:?}", contents_short(c)),
    Err(e) => format!("error: {}", e),
  };
  if double {
    // narrow oracle: the on-disk index opens, names no missing file, and shows
    // the pre- or the post-state
    match &disk {
      Ok(c) if c == &s_pre || c == &s_commit => {}
      other => fail!(
        "double-fault-disk-state",
        format!(
          "{} under faults {:?} returned {}; reopening from disk gives {}; pre-state {:?}, post-state {:?}",
          case.target.short(),
          out.fired,
          outcome.short(),
          describe(other),
          contents_short(&s_pre),
          contents_short(&s_commit)
        )
      ),
    }
    stats.inc("checks.double");
    verif::fs::unmount(wroot);
    return out;
  }
  let expect = if outcome.is_ok() { &s_ok } else { &s_err };
  if live.as_ref().ok() != Some(expect) {
    fail!(
      if outcome.is_ok() { "ok-but-not-applied" } else { "err-but-state-changed" },
      format!(
        "{} under {:?} returned {}; a new reader on the same Index shows {}, expected {:?}",
        case.target.short(),
        out.fired,
        outcome.short(),
        describe(&live),
        contents_short(expect)
      )
    );
  }
  if disk.as_ref().ok() != Some(expect) {
    fail!(
      if outcome.is_ok() { "ok-but-not-on-disk" } else { "err-but-disk-changed" },
      format!(
        "{} under {:?} returned {}; reopening from disk shows {}, expected {:?}",
        case.target.short(),
        out.fired,
        outcome.short(),
        describe(&disk),
        contents_short(expect)
      )
    );
  }
  stats.inc("checks.single");
  // ---- retryability (faults have stopped)
  let mut final_expected = expect.clone();
  let mut queue_after: Vec<QOp> = q_pre.clone();
  match &case.target {
    Op::Add { id, ver, .. } => {
      let v = version_of(cfg.profile, id, *ver);
      let qop = QOp::Add { id: id.clone(), v };
      if !outcome.is_ok() {
        match session.exec(&case.target) {
          Outcome::OkIndex(i) if i == adds_pre => {}
          o => fail!(
            "retry-failed",
            format!("add failed under {:?}; re-issuing it with healthy storage -> {} (expected ok({}))", out.fired, o.short(), adds_pre)
          ),
        }
      } else if outcome != Outcome::OkIndex(adds_pre) {
        fail!("ok-but-not-applied", format!("add under {:?} returned {} expected ok({})", out.fired, outcome.short(), adds_pre));
      }
      queue_after.push(qop);
    }
    Op::Delete { id, .. } => {
      if !outcome.is_ok() {
        let o = session.exec(&case.target);
        if !o.is_ok() {
          fail!("retry-failed", format!("delete failed under {:?}; re-issuing it with healthy storage -> {}", out.fired, o.short()));
        }
      }
      queue_after.push(QOp::Del { id: id.clone() });
    }
    Op::Commit { .. } => {
      if !outcome.is_ok() {
        let o = session.exec(&case.target);
        if !o.is_ok() {
          fail!("retry-failed", format!("commit failed under {:?}; re-issuing it with healthy storage -> {}", out.fired, o.short()));
        }
        stats.inc("probe.commit_retried_after_fault");
      }
      final_expected = s_commit.clone();
      queue_after.clear();
    }
    Op::Rollback { .. } => {
      if !outcome.is_ok() {
        let o = session.exec(&case.target);
        if !o.is_ok() {
          fail!("retry-failed", format!("rollback failed under {:?}; re-issuing it with healthy storage -> {}", out.fired, o.short()));
        }
      }
      queue_after.clear();
    }
    Op::Compact => {
      if !outcome.is_ok() {
        let o = session.exec(&case.target);
        if !o.is_ok() {
          fail!("retry-failed", format!("compact failed under {:?}; re-issuing it with healthy storage -> {}", out.fired, o.short()));
        }
      }
    }
    _ => {}
  }
  // state after the (retried) call
  let index = session.index.as_ref().unwrap();
  match contents_of(index) {
    Ok(c) if c == final_expected => {}
    other => fail!(
      "retry-wrong-state",
      format!(
        "after {} (faults {:?}, first result {}) and its retry a new reader shows {}, expected {:?}",
        case.target.short(),
        out.fired,
        outcome.short(),
        describe(&other),
        contents_short(&final_expected)
      )
    ),
  }
  // ---- the queue is intact: commit applies it exactly once; the log on disk
  // agrees with it (drop, reopen, recover, commit)
  let via_restart = plan.first().map(|f| f.at % 2 == 0).unwrap_or(false);
  if via_restart && session.writers.contains_key(&0) {
    session.exec(&Op::DropWriter { h: 0 });
    if !session.exec(&Op::Reopen).is_ok() {
      fail!("disk-unopenable", format!("after {} under {:?}: Index::open failed", case.target.short(), out.fired));
    }
    if !session.exec(&Op::NewWriter { h: 0 }).is_ok() {
      fail!("disk-unopenable", format!("after {} under {:?}: writer() after reopen failed", case.target.short(), out.fired));
    }
    stats.inc("probe.queue_checked_via_restart");
  }
  if session.writers.contains_key(&0) {
    let probe = Op::Add {
      h: 0,
      id: "zz".into(),
      ver: 999_999,
    };
    let adds_now = queue_after.iter().filter(|o| matches!(o, QOp::Add { .. })).count() as u32;
    match session.exec(&probe) {
      Outcome::OkIndex(i) if i == adds_now => {}
      o => fail!(
        "queue-corrupted",
        format!(
          "after {} under {:?} (first result {}){}: the queue should hold {:?}, but a probe add returned {} (expected ok({}))",
          case.target.short(),
          out.fired,
          outcome.short(),
          if via_restart { " and a restart" } else { "" },
          queue_after.iter().map(|o| o.short()).collect::<Vec<_>>(),
          o.short(),
          adds_now
        )
      ),
    }
    let o = session.exec(&Op::Commit { h: 0 });
    if !o.is_ok() {
      fail!("retry-failed", format!("commit after {} under {:?} -> {}", case.target.short(), out.fired, o.short()));
    }
    let mut q = queue_after.clone();
    q.push(QOp::Add {
      id: "zz".into(),
      v: version_of(cfg.profile, "zz", 999_999),
    });
    let want = fold(&final_expected, &q);
    let index = session.index.as_ref().unwrap();
    match contents_of(index) {
      Ok(c) if c == want => {}
      other => fail!(
        "queue-corrupted",
        format!(
          "after {} under {:?} (first result {}){}: committing the queue {:?} gave {}, expected {:?}",
          case.target.short(),
          out.fired,
          outcome.short(),
          if via_restart { " and a restart" } else { "" },
          q.iter().map(|o| o.short()).collect::<Vec<_>>(),
          describe(&other),
          contents_short(&want)
        )
      ),
    }
    match session.open_fresh_index().map_err(|o| o.short()).and_then(|i| contents_of(&i)) {
      Ok(c) if c == want => {}
      other => fail!(
        "disk-unopenable",
        format!("after {} under {:?} and a final commit, reopening from disk gives {}", case.target.short(), out.fired, describe(&other))
      ),
    }
  }
  verif::fs::unmount(wroot);
  out
}

fn kinds_for(p: Prim) -> Vec<FaultKind> {
  match p {
    Prim::OpenRead | Prim::OpenDir | Prim::Read => vec![FaultKind::EioBefore],
    Prim::Write | Prim::OpenCreate | Prim::Mkdir => vec![FaultKind::EioBefore, FaultKind::EioAfter, FaultKind::Enospc],
    _ => vec![FaultKind::EioBefore, FaultKind::EioAfter],
  }
}

pub struct FaultRun {
  pub violations: Vec<Violation>,
  pub trace: Vec<String>,
  pub pin: Option<Vec<FaultSpec>>,
}

pub fn run_case(case: &FaultCase, wroot: &Path, stats: &mut Stats) -> FaultRun {
  let mut run = FaultRun {
    violations: Vec::new(),
    trace: Vec::new(),
    pin: None,
  };
  let to_spec = |plan: &[Fault]| -> Vec<FaultSpec> {
    plan
      .iter()
      .map(|f| FaultSpec {
        at: f.at,
        kind: f.kind.name().to_string(),
      })
      .collect()
  };
  if let Some(pin) = &case.pin {
    let plan: Vec<Fault> = pin
      .iter()
      .filter_map(|s| FaultKind::parse(&s.kind).map(|k| Fault { at: s.at, kind: k }))
      .collect();
    let a = attempt(case, wroot, &plan, stats);
    run.trace.push(format!("pinned {:?} fired {:?} ok={}", to_spec(&plan), a.fired.len(), a.outcome_ok));
    if let Some(v) = a.violation {
      run.pin = Some(to_spec(&plan));
      run.violations.push(v);
    }
    verif::fs::unmount(wroot);
    return run;
  }
  // fault-free measurement
  let base = attempt(case, wroot, &[], stats);
  run.trace.push(format!("target {} prims {}", case.target.kind(), base.prims));
  if let Some(v) = base.violation {
    run.violations.push(v);
    verif::fs::unmount(wroot);
    return run;
  }
  let mut rng = Rng::new(case.pair_seed);
  // long targets (long documents: many read/write primitives): every
  // structural primitive (open, fsync, rename, unlink, set_len, mkdir) and a
  // seeded sample of about 60 of the reads and writes; pairs are sampled
  let heavy = base.prims > 120;
  let pairs = if heavy { case.pairs.min(2) } else { case.pairs };
  'outer: for k in 0..base.prims {
    let prim = base.trace[k as usize];
    if heavy && case.pin.is_none() && matches!(prim, Prim::Read | Prim::Write) && crate::rng::derive(case.pair_seed, "fault-sample", k) % base.prims >= 60 {
      continue;
    }
    for kind in kinds_for(prim) {
      let plan = vec![Fault { at: k, kind }];
      let a = attempt(case, wroot, &plan, stats);
      run.trace.push(format!("{}:{}@{} ok={} prims={}", k, kind.name(), prim.name(), a.outcome_ok, a.prims));
      if let Some(v) = a.violation {
        run.pin = Some(to_spec(&plan));
        run.violations.push(v);
        break 'outer;
      }
      if pairs == 0 || a.prims <= k + 1 {
        continue;
      }
      // second faults land in what the first fault made the call do
      let seconds: Vec<u64> = if pairs == u32::MAX {
        (k + 1..a.prims).collect()
      } else {
        (0..pairs).map(|_| k + 1 + rng.below(a.prims - k - 1)).collect()
      };
      for k2 in seconds {
        let prim2 = a.trace[k2 as usize];
        for kind2 in kinds_for(prim2) {
          let plan2 = vec![Fault { at: k, kind }, Fault { at: k2, kind: kind2 }];
          let b = attempt(case, wroot, &plan2, stats);
          if b.fired.len() == 2 && k2 >= base.prims.min(a.prims) {
            stats.inc("probe.second_fault_in_error_path");
          }
          if let Some(v) = b.violation {
            run.pin = Some(to_spec(&plan2));
            run.violations.push(v);
            break 'outer;
          }
        }
      }
    }
  }
  let shape = format!("{:?}|{}|{}", case.cfg.profile, case.prefix.iter().map(|o| o.kind()).collect::<Vec<_>>().join(","), case.target.kind());
  stats.fingerprints.insert(crate::rng::hash_bytes(7, shape.as_bytes()));
  verif::fs::unmount(wroot);
  run
}

pub fn shrink_candidates(case: &FaultCase) -> Vec<FaultCase> {
  let mut out = Vec::new();
  let n = case.prefix.len();
  let mut chunk = (n / 2).max(1);
  loop {
    let mut i = 0;
    while i + chunk <= n {
      let mut c = case.clone();
      c.prefix.drain(i..i + chunk);
      c.pin = None;
      out.push(c);
      i += chunk;
    }
    if chunk == 1 {
      break;
    }
    chunk /= 2;
  }
  if case.cfg.profile != Profile::Basic {
    let mut c = case.clone();
    c.cfg.profile = Profile::Basic;
    c.pin = None;
    out.push(c);
  }
  if case.cfg.positions {
    let mut c = case.clone();
    c.cfg.positions = false;
    c.pin = None;
    out.push(c);
  }
  out
}

pub fn sample_json(case: &FaultCase) -> Value {
  json!({
    "cfg": case.cfg,
    "prefix": case.prefix.iter().map(|o| o.short()).collect::<Vec<_>>(),
    "target": case.target.short(),
    "second_faults_per_first": if case.pairs == u32::MAX { json!("all") } else { json!(case.pairs) },
  })
}
