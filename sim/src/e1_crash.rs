//! E1 `crash`: crash-consistency of commits (C01) and of the queued-operation
//! log (C02) under durability model M1 (see crash.rs).
//!
//! A case is a list of *sessions*. Each session is a history executed once on
//! FsStorage+SimFs with the operation log on. A session either ends in a
//! pinned crash (position + persistence choice; the resulting image is the
//! next session's disk) or - the last one - is *swept*: every primitive
//! boundary x a structured set of persistence choices is turned into an image
//! and checked.

use std::collections::{BTreeMap, BTreeSet, HashMap};
use std::path::{Path, PathBuf};
use std::sync::Arc;

use searchlite_core::verif;
use serde::{Deserialize, Serialize};
use serde_json::{json, Value};

use crate::crash::{Choice, Image, InoChoice, Tail, Tracker, TAG_OLD, TAG_ZERO};
use crate::kit::{Stats, Violation};
use crate::model::{contents_short, fold, Contents, QOp};
use crate::rng::{derive, Rng};
use crate::simfs::{Ev, LogEntry, SimFs};
use crate::work::*;

#[derive(Clone, Debug, Serialize, Deserialize, PartialEq)]
#[serde(rename_all = "snake_case")]
pub enum WalTail {
  Any,
  Dropped,
  Kept,
  Torn(u32),
}

#[derive(Clone, Debug, Serialize, Deserialize, PartialEq)]
pub struct CrashSpec {
  /// crash inside (or right after) this op of the session
  pub op: usize,
  /// after this many of its mutating primitives (modulo count+1)
  pub prim: u32,
  /// PRNG value for the persistence choice of everything but the log tail
  pub seed: u64,
  pub wal: WalTail,
  /// 0 = mixed, 1 = all persisted, 2 = only durable (for non-log inodes/journal)
  pub base: u8,
  /// explicit persistence choice (overrides seed/wal/base)
  #[serde(default)]
  pub choice: Option<Value>,
}

#[derive(Clone, Debug, Serialize, Deserialize, PartialEq)]
pub struct SessionSpec {
  pub ops: Vec<Op>,
  pub crash: Option<CrashSpec>,
}

#[derive(Clone, Debug, Serialize, Deserialize, PartialEq)]
pub struct Pin {
  pub at: usize,
  pub choice: Value,
}

#[derive(Clone, Debug, Serialize, Deserialize, PartialEq)]
pub struct CrashCase {
  pub cfg: Cfg,
  pub sessions: Vec<SessionSpec>,
  /// sweep every boundary of the last session
  pub sweep: bool,
  pub image_seed: u64,
  pub samples: usize,
  /// replay of one specific image of the sweep
  #[serde(default)]
  pub pin: Option<Pin>,
}

// ---------------------------------------------------------------------------
// harness-side model of a single-handle-at-a-time history with crashes

#[derive(Clone, Debug, PartialEq)]
struct TOp {
  call: u32,
  op: QOp,
}

#[derive(Clone, Debug, PartialEq)]
struct Alt {
  q: Vec<TOp>,
  /// adds the code may still hold in its queue although they are already
  /// part of the committed state (published in-flight commit, log not yet
  /// truncated); re-applying them must not change contents
  phantom_adds: u32,
  /// savepoint: length of `q` when the handle's mark was taken
  mark: Option<usize>,
}

impl Alt {
  fn empty() -> Alt {
    Alt {
      q: Vec::new(),
      phantom_adds: 0,
      mark: None,
    }
  }
  fn adds(&self) -> u32 {
    self.phantom_adds + self.q.iter().filter(|t| matches!(t.op, QOp::Add { .. })).count() as u32
  }
  fn code_queue_empty(&self) -> bool {
    self.q.is_empty() && self.phantom_adds == 0
  }
  fn qops(&self) -> Vec<QOp> {
    self.q.iter().map(|t| t.op.clone()).collect()
  }
}

#[derive(Clone, Debug)]
struct CModel {
  committed: Contents,
  alts: Vec<Alt>,
  synced: BTreeSet<u32>,
  /// operations an earlier crash left in the log although the commit they
  /// belong to had already been published (the crash fell between the manifest
  /// rename and the durable commit marker). They stay there legitimately until
  /// the log is next cleared (completed commit or rollback); re-applying them
  /// must not change contents.
  applied: Vec<TOp>,
}

#[derive(Clone, Debug)]
struct CallRec {
  op: Op,
  op_index: usize,
  before: CModel,
  log_start: usize,
  log_end: usize,
}

fn alts_short(alts: &[Alt]) -> String {
  alts
    .iter()
    .map(|a| format!("[{}{}]", if a.phantom_adds > 0 { format!("({} applied adds) ", a.phantom_adds) } else { String::new() }, a.q.iter().map(|t| t.op.short()).collect::<Vec<_>>().join(",")))
    .collect::<Vec<_>>()
    .join(" | ")
}

// ---------------------------------------------------------------------------

pub fn gen_case(rng: &mut Rng, c02: bool, thorough: bool) -> CrashCase {
  // swarm: long documents (multi-write files and log records) in one run of
  // eight; a large id space with bursts of adds in one run of twenty-five
  let big_every = if rng.chance(1, 6) { 2 + rng.below(3) as u32 } else { 0 };
  let many = rng.chance(1, if c02 { 40 } else { 30 });
  let cfg = Cfg {
    storage: StorageKind::Fs,
    profile: *rng.pick(&[Profile::Basic, Profile::Basic, Profile::Nested, Profile::Rich]),
    positions: rng.chance(1, 2),
    ids: if many { if c02 { 60 + rng.usize(40) } else { 130 + rng.usize(60) } } else { 2 + rng.usize(3) },
    transparent: rng.chance(1, 3),
    odd_ids: !many && rng.chance(1, 4),
  };
  // C01 too runs over disks that earlier crashes left behind (orphan files,
  // leftover temp files, un-truncated logs)
  let nsessions = if c02 {
    1 + rng.usize(4)
  } else if rng.chance(1, 2) {
    1
  } else {
    2 + rng.usize(2)
  };
  let mut sessions = Vec::new();
  let mut ver_base = 1u64;
  for s in 0..nsessions {
    let last = s + 1 == nsessions;
    let len = if rng.chance(3, 4) { 2 + rng.usize(7) } else { 8 + rng.usize(if thorough { 24 } else { 10 }) };
    // new_writer, add, delete, commit, rollback, drop, compact, reopen, relocate, open_reader, check_reader
    let mut weights: [u32; 11] = if c02 { [6, 34, 12, 8, 4, 12, 2, 3, 0, 0, 0] } else { [6, 30, 10, 16, 3, 6, 5, 3, 0, 0, 0] };
    for i in [2usize, 4, 5, 6, 7] {
      if rng.chance(1, 6) {
        weights[i] = 0;
      }
    }
    let p = GenParams {
      len,
      max_handles: 1,
      overlap: false,
      weights,
      big_every,
      burst: if many { if c02 { 40 + rng.below(40) as u32 } else { 100 + rng.below(80) as u32 } } else { 0 },
      savepoints: rng.chance(1, 3),
      purge: !many && rng.chance(1, 8),
      multi_delete: false,
    };
    let mut ops = gen_ops(rng, &cfg, &p);
    if s > 0 && rng.chance(1, 2) {
      // a session on a disk a crash left behind often starts by cleaning up:
      // this makes the next manifest shorter than what an interrupted commit
      // may have left in its temp file
      let head: Vec<Op> = match rng.below(4) {
        // a partial rollback right after recovery (the log may just have been
        // repaired), then something that must survive the next restart
        3 => vec![
          Op::NewWriter { h: 0 },
          Op::Savepoint { h: 0 },
          Op::Add { h: 0, id: "d0".into(), ver: 900 },
          Op::RollbackTo { h: 0 },
          Op::Add { h: 0, id: "d1".into(), ver: 901 },
        ],
        0 => vec![Op::Compact],
        1 => vec![Op::NewWriter { h: 0 }, Op::Rollback { h: 0 }, Op::Delete { h: 0, id: "d0".into() }, Op::Commit { h: 0 }],
        _ => vec![Op::NewWriter { h: 0 }, Op::Rollback { h: 0 }, Op::DropWriter { h: 0 }, Op::Compact],
      };
      let mut v = head;
      // later generated ops keep working: they re-create handle 0 when needed
      if !matches!(v.last(), Some(Op::Compact)) {
        v.push(Op::DropWriter { h: 0 });
      }
      v.extend(ops);
      ops = v;
    }
    // unique versions across sessions, handles numbered per session
    for op in ops.iter_mut() {
      match op {
        Op::Add { ver, h, .. } => {
          *ver += ver_base;
          // (no giant documents here: every crash image would carry them)
          if is_big(*ver) && *ver % 97 == 0 {
            *ver += 1;
          }
          *h += s * 100;
        }
        Op::NewWriter { h } | Op::Delete { h, .. } | Op::Commit { h } | Op::Rollback { h } | Op::DropWriter { h } | Op::Savepoint { h } | Op::RollbackTo { h } => *h += s * 100,
        _ => {}
      }
    }
    ver_base += 1000;
    let crash = if last {
      None
    } else {
      let wal = match rng.below(8) {
        0 | 1 => WalTail::Dropped,
        2 | 3 => WalTail::Kept,
        4 | 5 | 6 => WalTail::Torn(rng.below(200) as u32),
        _ => WalTail::Any,
      };
      let publishing: Vec<usize> = ops.iter().enumerate().filter(|(_, o)| matches!(o, Op::Commit { .. } | Op::Compact)).map(|(i, _)| i).collect();
      Some(CrashSpec {
        // bias towards calls that publish a manifest and towards the end of
        // the session (in-flight state exists there)
        op: if !publishing.is_empty() && rng.chance(1, 3) {
          *rng.pick(&publishing)
        } else if rng.chance(1, 2) {
          ops.len().saturating_sub(1 + rng.usize(2))
        } else {
          rng.usize(ops.len() + 1)
        },
        prim: rng.below(40) as u32,
        seed: rng.next(),
        wal,
        base: rng.below(3) as u8,
        choice: None,
      })
    };
    sessions.push(SessionSpec { ops, crash });
  }
  CrashCase {
    cfg,
    sessions,
    sweep: true,
    image_seed: rng.next(),
    samples: if thorough { 6 } else { 2 },
    pin: None,
  }
}

// ---------------------------------------------------------------------------

struct SessionRun {
  log: Vec<LogEntry>,
  calls: Vec<CallRec>,
  initial: Vec<(PathBuf, u64, Vec<u8>)>,
  initial_dirs: BTreeSet<PathBuf>,
  end_model: CModel,
}

struct Ctx<'a> {
  cfg: &'a Cfg,
  wroot: &'a Path,
  root: PathBuf,
  c02: bool,
  stats: &'a mut Stats,
  /// bytes each API call wrote to the log file
  wal_bytes: BTreeMap<u32, usize>,
  call_ops: BTreeMap<u32, QOp>,
  commit_calls: BTreeSet<u32>,
  next_call: u32,
  trace: Vec<String>,
}

fn wal_ino_in(log: &[LogEntry], initial: &[(PathBuf, u64, Vec<u8>)]) -> Option<u64> {
  for (p, ino, _) in initial {
    if p.to_string_lossy().ends_with("wal.log") {
      return Some(*ino);
    }
  }
  for e in log {
    if let Ev::Create { ino, path } = &e.ev {
      if path.to_string_lossy().ends_with("wal.log") {
        return Some(*ino);
      }
    }
  }
  None
}

/// Operations whose log records are completely inside the image, in file
/// order, after the last complete commit marker. Derived from which API call
/// wrote which byte - never from parsing the record format.
fn ops_on_disk(ctx: &Ctx, image: &Image) -> Vec<TOp> {
  let mut out: Vec<TOp> = Vec::new();
  let Some(tags) = &image.wal_tags else { return out };
  let mut i = 0;
  while i < tags.len() {
    let t = tags[i];
    let mut j = i;
    while j < tags.len() && tags[j] == t {
      j += 1;
    }
    let run = j - i;
    i = j;
    if t == TAG_ZERO || t == TAG_OLD {
      continue; // garbage
    }
    let full = ctx.wal_bytes.get(&t).copied().unwrap_or(usize::MAX);
    if run != full {
      continue; // torn record
    }
    if ctx.commit_calls.contains(&t) {
      out.clear();
    } else if let Some(op) = ctx.call_ops.get(&t) {
      out.push(TOp { call: t, op: op.clone() });
    }
  }
  out
}

#[derive(Clone, Debug)]
struct ImageObs {
  open: Result<Contents, String>,
}

fn mount_image(wroot: &Path, image: &Image) -> SimFs {
  let fs = SimFs::from_image(wroot, &image.files, &image.dirs);
  verif::fs::mount(wroot, Arc::new(fs.clone()));
  fs
}

fn observe_image(ctx: &mut Ctx, image: &Image) -> ImageObs {
  let fs = mount_image(ctx.wroot, image);
  fs.with(|c| c.record = false);
  // half of the images are reopened the way an "open or create" application
  // does: a damaged or half-written manifest must never be taken for "no index"
  let create_if_missing = image.hash % 2 == 1;
  let open = match Session::open_with(ctx.cfg, &ctx.root, Some(fs.clone()), create_if_missing) {
    Ok(s) => match s.observe() {
      Ok(obs) => obs.to_contents(),
      Err(o) => Err(format!("reader/search failed: {}", o.short())),
    },
    Err(o) => Err(format!("Index::open failed: {}", o.short())),
  };
  ImageObs { open }
}

/// After a crash: open a writer on the image, add one probe document, commit,
/// and read back. Returns (index returned by the probe add, contents).
fn recover_on_image(ctx: &mut Ctx, image: &Image) -> Result<(u32, Contents), String> {
  let fs = mount_image(ctx.wroot, image);
  fs.with(|c| c.record = false);
  let mut s = Session::open(ctx.cfg, &ctx.root, Some(fs.clone())).map_err(|o| format!("Index::open failed: {}", o.short()))?;
  match s.exec(&Op::NewWriter { h: 0 }) {
    Outcome::Ok => {}
    o => return Err(format!("writer() on the recovered directory failed: {}", o.short())),
  }
  let idx = match s.exec(&Op::Add {
    h: 0,
    id: "zz".into(),
    ver: 999_999,
  }) {
    Outcome::OkIndex(i) => i,
    o => return Err(format!("add on the recovered writer failed: {}", o.short())),
  };
  match s.exec(&Op::Commit { h: 0 }) {
    Outcome::Ok => {}
    o => return Err(format!("commit of the recovered queue failed: {}", o.short())),
  }
  let c = s.observe().map_err(|o| format!("read after recovery commit failed: {}", o.short()))?.to_contents()?;
  Ok((idx, c))
}

/// State of the world at a log boundary.
struct Boundary<'a> {
  pos: usize,
  in_flight: Option<&'a CallRec>,
  model: &'a CModel,
}

fn kind_of(e: &Ev) -> &'static str {
  e.kind()
}

/// Check one crash image against C01 and C02. Returns the model with which a
/// following session starts, or a violation.
fn check_image(
  ctx: &mut Ctx,
  b: &Boundary,
  log: &[LogEntry],
  wal_ino: Option<u64>,
  image: &Image,
  class: &str,
  obs_cache: &mut HashMap<u64, ImageObs>,
  rec_cache: &mut HashMap<u64, Result<(u32, Contents), String>>,
  do_recovery: bool,
) -> Result<CModel, Violation> {
  let step = b.pos;
  let flight_kind = b.in_flight.map(|c| c.op.kind()).unwrap_or("idle");
  let last_prim = if b.pos > 0 { kind_of(&log[b.pos - 1].ev) } else { "start" };
  let site = format!("{}:{}", flight_kind, last_prim);
  ctx.stats.sites.insert(site.clone());
  ctx.stats.inc(&format!("image.{}", class));
  ctx.stats.inc("evaluations");
  // ---- C01: openable, contents = S_acked or the in-flight commit's S_new
  let obs = match obs_cache.get(&image.hash) {
    Some(o) => o.clone(),
    None => {
      ctx.stats.fingerprints.insert(image.hash);
      let o = observe_image(ctx, image);
      obs_cache.insert(image.hash, o.clone());
      o
    }
  };
  let s_acked = &b.model.committed;
  let mut s_new: Vec<Contents> = Vec::new();
  if let Some(c) = b.in_flight {
    if matches!(c.op, Op::Commit { .. }) {
      for a in &b.model.alts {
        if !a.code_queue_empty() {
          s_new.push(fold(s_acked, &a.qops()));
        }
      }
    }
  }
  let contents = match &obs.open {
    Ok(c) => c.clone(),
    Err(e) => {
      return Err(Violation::new(
        &["C01"],
        "crash-unopenable",
        &site,
        step,
        format!("crash during {} after `{}` (image class {}): {}", flight_kind, last_prim, class, e),
      ))
    }
  };
  let published = &contents != s_acked && s_new.iter().any(|s| s == &contents);
  if &contents != s_acked && !published {
    return Err(Violation::new(
      &["C01"],
      "crash-contents",
      &site,
      step,
      format!(
        "crash during {} after `{}` (image class {}): contents {:?}, acknowledged state {:?}{}",
        flight_kind,
        last_prim,
        class,
        contents_short(&contents),
        contents_short(s_acked),
        if s_new.is_empty() { String::new() } else { format!(", in-flight commit result {:?}", s_new.iter().map(contents_short).collect::<Vec<_>>()) }
      ),
    ));
  }
  if published {
    ctx.stats.inc("probe.crash_published_inflight_commit");
  }
  // ---- C02 check 1: operations followed by a completed log sync are on disk
  let on_disk = ops_on_disk(ctx, image);
  let on_disk_calls: BTreeSet<u32> = on_disk.iter().map(|t| t.call).collect();
  let mut required: BTreeSet<u32> = b.model.synced.clone();
  let mut exempt = false;
  if let Some(c) = b.in_flight {
    match c.op {
      Op::Commit { .. } => {
        // once the commit's first log sync completed, the whole queue is durable
        let synced_in_call = log[c.log_start..b.pos].iter().any(|e| matches!(&e.ev, Ev::Fsync { ino } if Some(*ino) == wal_ino));
        if synced_in_call {
          // calls common to every alternative
          if let Some(first) = b.model.alts.first() {
            for t in &first.q {
              if b.model.alts.iter().all(|a| a.q.iter().any(|x| x.call == t.call)) {
                required.insert(t.call);
              }
            }
          }
        }
        // published, or indistinguishable from it (the commit changes nothing)
        if published || s_new.iter().any(|s| s == &contents) {
          exempt = true;
        }
      }
      Op::Rollback { .. } | Op::RollbackTo { .. } => exempt = true,
      _ => {}
    }
  }
  if !exempt {
    let missing: Vec<u32> = required.iter().filter(|c| !on_disk_calls.contains(c)).copied().collect();
    if !missing.is_empty() {
      let names: Vec<String> = missing.iter().filter_map(|c| ctx.call_ops.get(c).map(|o| o.short())).collect();
      return Err(Violation::new(
        &["C02"],
        "synced-op-not-durable",
        &site,
        step,
        format!(
          "crash during {} after `{}` (image class {}): operations {:?} were followed by a completed log sync but are not in the surviving log ({:?})",
          flight_kind,
          last_prim,
          class,
          names,
          on_disk.iter().map(|t| t.op.short()).collect::<Vec<_>>()
        ),
      ));
    }
  }
  // ---- C02 check 4: nothing that was rolled back (or committed and cleared)
  // may still be in the log: a new writer would re-apply it
  {
    let mut allowed: BTreeSet<u32> = BTreeSet::new();
    for a in &b.model.alts {
      for t in &a.q {
        allowed.insert(t.call);
      }
    }
    // leftovers of a commit that an earlier crash interrupted after its
    // publication: nothing has cleared the log since, so they may still be
    // there - as long as applying them again changes nothing
    let leftover: BTreeSet<u32> = b.model.applied.iter().map(|t| t.call).filter(|c| !allowed.contains(c)).collect();
    if !leftover.is_empty() && on_disk.iter().any(|t| leftover.contains(&t.call)) {
      ctx.stats.inc("probe.applied_ops_still_logged");
      let all: Vec<QOp> = on_disk.iter().map(|t| t.op.clone()).collect();
      let without: Vec<QOp> = on_disk.iter().filter(|t| !leftover.contains(&t.call)).map(|t| t.op.clone()).collect();
      if !published && fold(&contents, &all) != fold(&contents, &without) {
        return Err(Violation::new(
          &["C02"],
          "applied-op-reapplied",
          &site,
          step,
          format!(
            "crash during {} after `{}` (image class {}): the log holds {:?}; {:?} of them were committed by a commit an earlier crash interrupted after publication, and applying them again on top of {:?} changes the result",
            flight_kind,
            last_prim,
            class,
            on_disk.iter().map(|t| t.op.short()).collect::<Vec<_>>(),
            on_disk.iter().filter(|t| leftover.contains(&t.call)).map(|t| t.op.short()).collect::<Vec<_>>(),
            contents_short(&contents)
          ),
        ));
      }
      allowed.extend(leftover.iter().copied());
    }
    let in_flight_call = if b.pos > 0 { log[..b.pos].iter().rev().find_map(|e| e.api.map(|a| a as u32)) } else { None };
    let stale: Vec<&TOp> = on_disk
      .iter()
      .filter(|t| !allowed.contains(&t.call) && !(b.in_flight.is_some() && Some(t.call) == in_flight_call))
      .collect();
    if !stale.is_empty() && !published {
      return Err(Violation::new(
        &["C02"],
        "discarded-op-recovered",
        &site,
        step,
        format!(
          "crash during {} after `{}` (image class {}): the surviving log still holds {:?}, which had been rolled back or committed before; the queue at that point was {}",
          flight_kind,
          last_prim,
          class,
          stale.iter().map(|t| t.op.short()).collect::<Vec<_>>(),
          alts_short(&b.model.alts)
        ),
      ));
    }
  }
  // ---- model a following session starts from
  let next = if published {
    let adds = on_disk.iter().filter(|t| matches!(t.op, QOp::Add { .. })).count() as u32;
    let mut alts = vec![Alt::empty()];
    if adds > 0 || !on_disk.is_empty() {
      alts.push(Alt {
        q: Vec::new(),
        phantom_adds: adds,
        mark: None,
      });
    }
    CModel {
      committed: contents.clone(),
      alts,
      synced: BTreeSet::new(),
      // the published commit's operations are still in the log
      applied: on_disk.clone(),
    }
  } else {
    CModel {
      committed: contents.clone(),
      alts: vec![Alt {
        q: on_disk.clone(),
        phantom_adds: 0,
        mark: None,
      }],
      // what is on disk now stays on disk
      synced: on_disk_calls.clone(),
      // from here on they are ordinary queue entries (`q` above)
      applied: Vec::new(),
    }
  };
  if !on_disk.is_empty() {
    ctx.stats.inc("probe.crash_with_queued_ops_on_disk");
  }
  // ---- C02 checks 2-4: recovery + commit gives the crash-free result
  if do_recovery {
    let rec = match rec_cache.get(&image.hash) {
      Some(r) => r.clone(),
      None => {
        let r = recover_on_image(ctx, image);
        rec_cache.insert(image.hash, r.clone());
        r
      }
    };
    ctx.stats.inc("checks.recovery");
    match rec {
      Err(e) => {
        return Err(Violation::new(
          &["C02", "C01"],
          "recovery-failed",
          &site,
          step,
          format!("crash during {} after `{}` (image class {}): {}", flight_kind, last_prim, class, e),
        ))
      }
      Ok((idx, after)) => {
        let probe = QOp::Add {
          id: "zz".into(),
          v: version_of(ctx.cfg.profile, "zz", 999_999),
        };
        let ok = next.alts.iter().any(|a| {
          let mut q = a.qops();
          q.push(probe.clone());
          a.adds() == idx && fold(&next.committed, &q) == after
        });
        if !ok {
          return Err(Violation::new(
            &["C02"],
            "recovered-queue-mismatch",
            &site,
            step,
            format!(
              "crash during {} after `{}` (image class {}): contents at reopen {:?}; log holds {}; a new writer's next add returned {} and committing gave {:?}, expected one of: {}",
              flight_kind,
              last_prim,
              class,
              contents_short(&next.committed),
              alts_short(&next.alts),
              idx,
              contents_short(&after),
              next
                .alts
                .iter()
                .map(|a| {
                  let mut q = a.qops();
                  q.push(probe.clone());
                  format!("add->{} then {:?}", a.adds(), contents_short(&fold(&next.committed, &q)))
                })
                .collect::<Vec<_>>()
                .join(" | ")
            ),
          ));
        }
      }
    }
  }
  Ok(next)
}

/// Execute one session's ops on `fs`, maintaining the harness model.
fn run_session(ctx: &mut Ctx, fs: &SimFs, session: &mut Session, start: CModel, ops: &[Op], sidx: usize) -> Result<SessionRun, Violation> {
  let mut model = start;
  let mut calls: Vec<CallRec> = Vec::new();
  for (k, op) in ops.iter().enumerate() {
    if !session.applicable(op) || matches!(op, Op::Relocate { .. } | Op::OpenReader { .. } | Op::CheckReader { .. }) {
      ctx.trace.push(format!("s{} {} {} skipped", sidx, k, op.kind()));
      continue;
    }
    let call = ctx.next_call;
    ctx.next_call += 1;
    let before = model.clone();
    let log_start = fs.with(|c| c.log.len());
    fs.marker(Ev::ApiBegin { call: call as usize });
    let outcome = session.exec(op);
    fs.marker(Ev::ApiEnd {
      call: call as usize,
      ok: outcome.is_ok(),
    });
    let log_end = fs.with(|c| c.log.len());
    ctx.stats.inc(&format!("op.{}", op.kind()));
    ctx.trace.push(format!("s{} {} {} -> {}", sidx, k, op.kind(), if outcome.is_ok() { "ok" } else { "fail" }));
    let step = sidx * 1000 + k;
    let fail = |class: &str, detail: String| Violation::new(&["C01", "C02"], class, op.kind(), step, detail);
    if let Outcome::Panic(p) = &outcome {
      return Err(fail("panic", format!("{} panicked: {}", op.short(), p)));
    }
    if !outcome.is_ok() {
      return Err(fail("call-failed", format!("{} in a fault-free session -> {}", op.short(), outcome.short())));
    }
    // bytes this call wrote to the log file
    let wal_ino = fs.with(|c| wal_ino_in(&c.log, &c.initial));
    let written: usize = fs.with(|c| {
      c.log[log_start..log_end]
        .iter()
        .map(|e| match &e.ev {
          Ev::Write { ino, data, .. } if Some(*ino) == wal_ino => data.len(),
          _ => 0,
        })
        .sum()
    });
    if written > 0 {
      ctx.wal_bytes.insert(call, written);
    }
    match op {
      Op::NewWriter { .. } => {}
      Op::Add { id, ver, .. } => {
        let Outcome::OkIndex(i) = outcome else { unreachable!() };
        let qop = QOp::Add {
          id: id.clone(),
          v: version_of(ctx.cfg.profile, id, *ver),
        };
        ctx.call_ops.insert(call, qop.clone());
        let before_alts = model.alts.clone();
        model.alts.retain(|a| a.adds() == i);
        if model.alts.is_empty() {
          return Err(Violation::new(
            &["C02"],
            "recovered-queue-mismatch",
            "add-index",
            step,
            format!("{} returned {}, but the handle's queue should hold {}", op.short(), i, alts_short(&before_alts)),
          ));
        }
        for a in model.alts.iter_mut() {
          a.q.push(TOp { call, op: qop.clone() });
        }
      }
      Op::Delete { id, .. } => {
        let qop = QOp::Del { id: id.clone() };
        ctx.call_ops.insert(call, qop.clone());
        for a in model.alts.iter_mut() {
          a.q.push(TOp { call, op: qop.clone() });
        }
      }
      Op::Commit { .. } => {
        ctx.commit_calls.insert(call);
        let obs = session.observe().map_err(|o| fail("read-failed", format!("after {}: {}", op.short(), o.short())))?;
        let c = obs.to_contents().map_err(|e| fail("contents-mismatch", e))?;
        let before_alts = model.alts.clone();
        let committed = model.committed.clone();
        model.alts.retain(|a| fold(&committed, &a.qops()) == c);
        if model.alts.is_empty() {
          return Err(Violation::new(
            &["C02"],
            "recovered-queue-mismatch",
            "commit-contents",
            step,
            format!(
              "{} on top of {:?} gave {:?}; the handle's queue should hold {}",
              op.short(),
              contents_short(&committed),
              contents_short(&c),
              alts_short(&before_alts)
            ),
          ));
        }
        if before_alts.iter().any(|a| !a.code_queue_empty()) {
          model.committed = c;
          model.alts = vec![Alt::empty()];
          model.synced.clear();
        }
        for a in model.alts.iter_mut() {
          a.mark = None;
        }
        // a writer opened after the crash has replayed the leftovers, so this
        // commit had something to do and cleared the log when it finished
        model.applied.clear();
      }
      Op::Rollback { .. } => {
        model.alts = vec![Alt::empty()];
        model.synced.clear();
        model.applied.clear();
      }
      Op::Savepoint { .. } => {
        for a in model.alts.iter_mut() {
          a.mark = Some(a.q.len());
        }
      }
      Op::RollbackTo { .. } => {
        ctx.stats.inc("probe.partial_rollbacks");
        for a in model.alts.iter_mut() {
          if let Some(m) = a.mark.take() {
            a.q.truncate(m);
          }
        }
        // what was discarded no longer has to be (and must not be) on disk
        let kept: BTreeSet<u32> = model.alts.iter().flat_map(|a| a.q.iter().map(|t| t.call)).collect();
        model.synced.retain(|c| kept.contains(c));
      }
      Op::DropWriter { .. } => {
        if model.alts.iter().all(|a| !a.code_queue_empty()) {
          let calls_now: Vec<u32> = model.alts.iter().flat_map(|a| a.q.iter().map(|t| t.call)).collect();
          // only calls present in every alternative
          for c in calls_now {
            if model.alts.iter().all(|a| a.q.iter().any(|t| t.call == c)) {
              model.synced.insert(c);
            }
          }
        }
      }
      Op::Compact | Op::Reopen => {}
      _ => {}
    }
    // fault-free sanity (C04 is checked elsewhere; here it protects the oracle)
    if !matches!(op, Op::Commit { .. }) {
      if let Ok(obs) = session.observe() {
        if let Ok(c) = obs.to_contents() {
          if c != model.committed {
            return Err(fail(
              "contents-mismatch",
              format!("after {}: expected {:?} got {:?}", op.short(), contents_short(&model.committed), contents_short(&c)),
            ));
          }
        }
      }
    }
    calls.push(CallRec {
      op: op.clone(),
      op_index: k,
      before,
      log_start,
      log_end,
    });
  }
  let (log, initial, initial_dirs) = fs.with(|c| (c.log.clone(), c.initial.clone(), c.initial_dirs.clone()));
  Ok(SessionRun {
    log,
    calls,
    initial,
    initial_dirs,
    end_model: model,
  })
}

fn boundary_at<'a>(run: &'a SessionRun, pos: usize) -> Boundary<'a> {
  // in-flight call: the one whose [log_start, log_end) strictly contains pos
  let mut model = run.calls.first().map(|c| &c.before).unwrap_or(&run.end_model);
  let mut in_flight = None;
  for (i, c) in run.calls.iter().enumerate() {
    if pos <= c.log_start {
      model = &c.before;
      break;
    }
    if pos < c.log_end {
      model = &c.before;
      in_flight = Some(c);
      break;
    }
    model = run.calls.get(i + 1).map(|n| &n.before).unwrap_or(&run.end_model);
  }
  Boundary { pos, in_flight, model }
}

fn tracker_for(run: &SessionRun, tags: &Option<Vec<u32>>) -> Tracker {
  let mut t = Tracker::new(&run.initial, &run.initial_dirs);
  if let Some(tags) = tags {
    t.set_initial_tags(tags.clone());
  }
  t
}

fn resolve_crash(run: &SessionRun, spec: &CrashSpec) -> usize {
  // the first executed call at or after the op index of the spec
  let Some(c) = run.calls.iter().find(|c| c.op_index >= spec.op) else {
    return run.log.len();
  };
  // boundaries inside the call: after its k-th mutating entry
  let muts: Vec<usize> = (c.log_start..c.log_end).filter(|i| !run.log[*i].ev.is_marker()).collect();
  let k = spec.prim as usize % (muts.len() + 1);
  if k == 0 {
    c.log_start + 1
  } else {
    muts[k - 1] + 1
  }
}

/// Inverse of `resolve_crash` for a sweep position.
fn spec_for(run: &SessionRun, pos: usize, choice: Value) -> CrashSpec {
  let mut op = usize::MAX;
  let mut prim = 0u32;
  for c in &run.calls {
    if pos > c.log_start && pos < c.log_end {
      op = c.op_index;
      prim = (c.log_start..pos).filter(|i| !run.log[*i].ev.is_marker()).count() as u32;
      break;
    }
    if pos <= c.log_start {
      op = c.op_index;
      prim = 0;
      break;
    }
  }
  if op == usize::MAX {
    op = run.calls.last().map(|c| c.op_index + 1).unwrap_or(0);
  }
  CrashSpec {
    op,
    prim,
    seed: 0,
    wal: WalTail::Any,
    base: 1,
    choice: Some(choice),
  }
}

fn pinned_choice(tracker: &Tracker, spec: &CrashSpec, wal_ino: Option<u64>) -> Choice {
  if let Some(c) = spec.choice.as_ref().and_then(Choice::from_json) {
    return c;
  }
  let mut rng = Rng::new(spec.seed);
  let mut ch = match spec.base {
    1 => tracker.all_persisted(),
    2 => tracker.only_durable(),
    _ => tracker.random_choice(&mut rng),
  };
  if spec.base == 2 {
    // keep the journal so that an un-synced log stays visible
    ch.journal_keep = tracker.journal_len();
  }
  if let Some(w) = wal_ino {
    let n = tracker.dirty().into_iter().find(|(i, _)| *i == w).map(|(_, n)| n).unwrap_or(0);
    match &spec.wal {
      WalTail::Any => {}
      WalTail::Dropped => {
        ch.inodes.insert(w, InoChoice { keep: 0, tail: Tail::None });
      }
      WalTail::Kept => {
        ch.inodes.insert(w, InoChoice { keep: n, tail: Tail::None });
      }
      WalTail::Torn(t) => {
        if n > 0 {
          let tail = match tracker.pending_write_len(w, n - 1) {
            Some(len) if len > 1 => Tail::Torn(1 + (*t as usize % (len - 1))),
            _ => Tail::None,
          };
          ch.inodes.insert(w, InoChoice { keep: n - 1, tail });
        }
      }
    }
  }
  ch.class = "pinned";
  ch
}

pub struct CrashRun {
  pub violations: Vec<Violation>,
  pub trace: Vec<String>,
  /// when the violation came from the sweep: the pin that reproduces it
  pub pin: Option<Pin>,
  /// ... and the same as an op-relative crash of the last session
  pub spec: Option<CrashSpec>,
}

pub fn run_case(case: &CrashCase, wroot: &Path, c02: bool, stats: &mut Stats) -> CrashRun {
  let ids = SimIds::new();
  install_ids(&ids);
  let root = wroot.join("a");
  stats.add(
    "probe.long_documents",
    case.sessions.iter().flat_map(|s| s.ops.iter()).filter(|o| matches!(o, Op::Add { ver, .. } if crate::work::is_big(*ver))).count() as u64,
  );
  if case.cfg.ids >= 100 {
    stats.inc("probe.large_id_space_runs");
  }
  let mut ctx = Ctx {
    cfg: &case.cfg,
    wroot,
    root: root.clone(),
    c02,
    stats,
    wal_bytes: BTreeMap::new(),
    call_ops: BTreeMap::new(),
    commit_calls: BTreeSet::new(),
    next_call: 0,
    trace: Vec::new(),
  };
  let mut out = CrashRun {
    violations: Vec::new(),
    trace: Vec::new(),
    pin: None,
    spec: None,
  };
  let mut model = CModel {
    committed: Contents::new(),
    alts: vec![Alt::empty()],
    synced: BTreeSet::new(),
    applied: Vec::new(),
  };
  let mut disk: Option<Image> = None;
  let nsessions = case.sessions.len();
  for (sidx, spec) in case.sessions.iter().enumerate() {
    let last = sidx + 1 == nsessions;
    // ---- bring up the disk and the index
    let fs = match &disk {
      None => SimFs::new(wroot),
      Some(img) => SimFs::from_image(wroot, &img.files, &img.dirs),
    };
    if case.cfg.transparent {
      fs.with(|c| c.transparent = Some(Rng::new(derive(case.image_seed, "transparent", sidx as u64))));
    }
    verif::fs::mount(wroot, Arc::new(fs.clone()));
    let opened = if disk.is_none() { Session::create(&case.cfg, &root, Some(fs.clone())) } else { Session::open(&case.cfg, &root, Some(fs.clone())) };
    let mut session = match opened {
      Ok(s) => s,
      Err(o) => {
        out.violations.push(Violation::new(&["C01"], "crash-unopenable", "session-open", sidx * 1000, format!("opening the index for session {} failed: {}", sidx, o.short())));
        break;
      }
    };
    let create_end = fs.with(|c| c.log.len());
    let run = match run_session(&mut ctx, &fs, &mut session, model.clone(), &spec.ops, sidx) {
      Ok(r) => r,
      Err(v) => {
        out.violations.push(v);
        break;
      }
    };
    {
      let t = fs.with(|c| c.stats.clone());
      ctx.stats.add("fault.short_write", t.short_write);
      ctx.stats.add("fault.eintr", t.eintr);
    }
    drop(session);
    let wal_ino = wal_ino_in(&run.log, &run.initial);
    let start_tags = disk.as_ref().and_then(|d| d.wal_tags.clone());
    let mut obs_cache: HashMap<u64, ImageObs> = HashMap::new();
    let mut rec_cache: HashMap<u64, Result<(u32, Contents), String>> = HashMap::new();
    if !last || !case.sweep {
      // ---- pinned crash: its image is the next session's disk
      let Some(cs) = &spec.crash else {
        // no crash: clean shutdown is just "everything persisted"
        let mut tr = tracker_for(&run, &start_tags);
        for e in &run.log {
          tr.apply(e);
        }
        let img = tr.image(&tr.all_persisted());
        model = run.end_model.clone();
        disk = Some(img);
        continue;
      };
      let pos = resolve_crash(&run, cs).max(create_end.min(run.log.len()));
      let mut tr = tracker_for(&run, &start_tags);
      for e in &run.log[..pos] {
        tr.apply(e);
      }
      let choice = pinned_choice(&tr, cs, wal_ino);
      let img = tr.image(&choice);
      let b = boundary_at(&run, pos);
      ctx.stats.inc("fault.crash");
      if matches!(choice.inodes.get(&wal_ino.unwrap_or(0)).map(|c| &c.tail), Some(Tail::Torn(_))) {
        ctx.stats.inc("fault.crash_torn_log_tail");
      }
      ctx.trace.push(format!("s{} crash at {} in {}", sidx, pos, b.in_flight.map(|c| c.op.kind()).unwrap_or("idle")));
      match check_image(&mut ctx, &b, &run.log, wal_ino, &img, "pinned", &mut obs_cache, &mut rec_cache, c02) {
        Ok(next) => {
          model = next;
          disk = Some(img);
        }
        Err(v) => {
          out.violations.push(v);
          break;
        }
      }
      continue;
    }
    // ---- sweep (or one pinned image of the sweep)
    let mut tr = tracker_for(&run, &start_tags);
    let total = run.log.len();
    let evals_at_start = ctx.stats.get("evaluations");
    let has_long_docs = case.sessions.iter().flat_map(|s| s.ops.iter()).any(|o| matches!(o, Op::Add { ver, .. } if crate::work::is_big(*ver)));
    for pos in 0..=total {
      if pos > 0 {
        tr.apply(&run.log[pos - 1]);
        if matches!(run.log[pos - 1].ev, Ev::ApiBegin { .. }) && pos != total {
          continue;
        }
      }
      if pos < create_end {
        continue;
      }
      // long logs (bursts of adds, long documents): a seeded sample of the
      // boundaries, always including the last 150 (the in-flight tail)
      const SWEEP_LIMIT: usize = 500;
      if case.pin.is_none() && total > SWEEP_LIMIT && pos + 150 < total {
        let h = derive(case.image_seed, "sweep-sample", pos as u64);
        if (h % total as u64) as usize >= SWEEP_LIMIT - 150 {
          continue;
        }
        ctx.stats.inc("probe.sweep_sampled_boundaries");
      }
      // a deterministic work cap per case (heavy cases: bursts, long documents)
      let cap: u64 = match (case.samples > 2, c02) {
        (true, true) => 60_000,
        (true, false) => 400_000,
        (false, true) => 3_000,
        (false, false) => 25_000,
      } / if has_long_docs { 4 } else { 1 };
      if case.pin.is_none() {
        let spent = ctx.stats.get("evaluations") - evals_at_start;
        // over the cap: only the in-flight tail (the last 120 boundaries) is
        // still swept, itself bounded by twice the cap
        if spent > 2 * cap {
          ctx.stats.inc("probe.sweep_cut_by_work_cap");
          break;
        }
        if spent > cap && pos + 120 < total {
          continue;
        }
      }
      let b = boundary_at(&run, pos);
      let choices: Vec<Choice> = match &case.pin {
        Some(p) => {
          if p.at != pos {
            continue;
          }
          match Choice::from_json(&p.choice) {
            Some(c) => vec![c],
            None => Vec::new(),
          }
        }
        None => {
          let mut rng = Rng::new(derive(case.image_seed, "img", pos as u64));
          let exhaustive_tail = if c02 { wal_ino } else { None };
          tr.choices(&mut rng, case.samples, exhaustive_tail)
        }
      };
      let mut seen: BTreeSet<u64> = BTreeSet::new();
      for ch in choices {
        let img = tr.image(&ch);
        if !seen.insert(img.hash) {
          continue;
        }
        if ch.class == "torn" && ch.inodes.keys().any(|i| Some(*i) == wal_ino) {
          ctx.stats.inc("fault.crash_torn_log_tail");
        }
        ctx.stats.inc("fault.crash");
        match check_image(&mut ctx, &b, &run.log, wal_ino, &img, ch.class, &mut obs_cache, &mut rec_cache, c02) {
          Ok(_) => {}
          Err(v) => {
            out.pin = Some(Pin {
              at: pos,
              choice: ch.to_json(),
            });
            out.spec = Some(spec_for(&run, pos, ch.to_json()));
            out.violations.push(v);
            break;
          }
        }
      }
      if !out.violations.is_empty() {
        break;
      }
    }
    if !out.violations.is_empty() {
      break;
    }
    model = run.end_model.clone();
  }
  let _ = (model, ctx.c02);
  ctx.stats.add("steps", ctx.next_call as u64);
  out.trace = std::mem::take(&mut ctx.trace);
  verif::fs::unmount(wroot);
  out
}

pub fn shrink_candidates(case: &CrashCase) -> Vec<CrashCase> {
  let mut out = Vec::new();
  // cut after session k and stop sweeping (violations found while running the
  // pinned sessions need nothing after them)
  if case.sessions.len() > 1 || case.sweep {
    for k in 0..case.sessions.len() {
      if k + 1 == case.sessions.len() && (!case.sweep || case.sessions[k].crash.is_none()) {
        continue;
      }
      let mut c = case.clone();
      c.sessions.truncate(k + 1);
      c.sweep = false;
      c.pin = None;
      out.push(c);
    }
  }
  // drop whole leading sessions (keeps the sweep)
  if case.sessions.len() > 1 {
    for i in 0..case.sessions.len() - 1 {
      let mut c = case.clone();
      c.sessions.remove(i);
      c.pin = None;
      out.push(c);
    }
  }
  for (si, s) in case.sessions.iter().enumerate() {
    let n = s.ops.len();
    let mut chunk = (n / 2).max(1);
    loop {
      let mut i = 0;
      while i + chunk <= n {
        let mut c = case.clone();
        c.sessions[si].ops.drain(i..i + chunk);
        if let Some(cr) = c.sessions[si].crash.as_mut() {
          if cr.op >= i + chunk {
            cr.op -= chunk;
          } else if cr.op >= i {
            cr.op = i;
          }
        }
        c.pin = None;
        out.push(c);
        i += chunk;
      }
      if chunk == 1 {
        break;
      }
      chunk /= 2;
    }
    if let Some(cr) = &s.crash {
      for (wal, base) in [(WalTail::Kept, 1u8), (WalTail::Dropped, 1), (cr.wal.clone(), 1), (cr.wal.clone(), 2)] {
        if wal != cr.wal || base != cr.base {
          let mut c = case.clone();
          let x = c.sessions[si].crash.as_mut().unwrap();
          x.wal = wal;
          x.base = base;
          c.pin = None;
          out.push(c);
        }
      }
    }
  }
  if case.cfg.profile != Profile::Basic {
    let mut c = case.clone();
    c.cfg.profile = Profile::Basic;
    c.pin = None;
    out.push(c);
  }
  if case.cfg.transparent {
    let mut c = case.clone();
    c.cfg.transparent = false;
    c.pin = None;
    out.push(c);
  }
  if case.cfg.positions {
    let mut c = case.clone();
    c.cfg.positions = false;
    c.pin = None;
    out.push(c);
  }
  out
}

pub fn sample_json(case: &CrashCase) -> Value {
  json!({
    "cfg": case.cfg,
    "sessions": case.sessions.iter().map(|s| json!({
      "ops": s.ops.iter().map(|o| o.short()).collect::<Vec<_>>(),
      "crash": s.crash,
    })).collect::<Vec<_>>(),
    "sweep_last_session": case.sweep,
  })
}
