//! SimFs: the simulated disk under `FsStorage` (implements `verif::fs::Vfs`).
//!
//! Live semantics are what a running process sees (page cache). Every mutating
//! primitive is appended to an operation log from which `crash.rs` derives
//! crash images. Fault plans, transparent faults, a path monitor and a yield
//! hook (for the baton scheduler) are applied per primitive.

use std::collections::{BTreeMap, BTreeSet};
use std::io::{self, SeekFrom};
use std::path::{Path, PathBuf};
use std::sync::{Arc, Mutex, RwLock};

use searchlite_core::verif::fs::{OpenOpts, Vfs, VfsFile};

use crate::rng::Rng;

#[derive(Clone, Debug, PartialEq, Eq)]
pub enum Ev {
  Create { ino: u64, path: PathBuf },
  Trunc { ino: u64 },
  Write { ino: u64, off: u64, data: Vec<u8> },
  SetLen { ino: u64, len: u64 },
  Fsync { ino: u64 },
  FsyncDir { path: PathBuf },
  Rename { from: PathBuf, to: PathBuf },
  Unlink { path: PathBuf },
  Mkdir { path: PathBuf },
  RmDirAll { path: PathBuf },
  ApiBegin { call: usize },
  ApiEnd { call: usize, ok: bool },
}

impl Ev {
  pub fn kind(&self) -> &'static str {
    match self {
      Ev::Create { .. } => "create",
      Ev::Trunc { .. } => "trunc",
      Ev::Write { .. } => "write",
      Ev::SetLen { .. } => "set_len",
      Ev::Fsync { .. } => "fsync",
      Ev::FsyncDir { .. } => "fsync_dir",
      Ev::Rename { .. } => "rename",
      Ev::Unlink { .. } => "unlink",
      Ev::Mkdir { .. } => "mkdir",
      Ev::RmDirAll { .. } => "rmdir_all",
      Ev::ApiBegin { .. } => "api_begin",
      Ev::ApiEnd { .. } => "api_end",
    }
  }
  pub fn is_marker(&self) -> bool {
    matches!(self, Ev::ApiBegin { .. } | Ev::ApiEnd { .. })
  }
}

#[derive(Clone, Debug)]
pub struct LogEntry {
  pub ev: Ev,
  /// API call in flight when the primitive was issued (harness marker).
  pub api: Option<usize>,
}

#[derive(Clone, Copy, Debug, PartialEq, Eq, Hash, PartialOrd, Ord)]
pub enum Prim {
  OpenRead,
  OpenCreate,
  OpenAppend,
  OpenDir,
  Read,
  Write,
  SetLen,
  Fsync,
  FsyncDir,
  Rename,
  Unlink,
  Mkdir,
  RmDirAll,
}

impl Prim {
  pub fn mutating(self) -> bool {
    !matches!(self, Prim::OpenRead | Prim::OpenDir | Prim::Read)
  }
  pub fn name(self) -> &'static str {
    match self {
      Prim::OpenRead => "open_read",
      Prim::OpenCreate => "open_create",
      Prim::OpenAppend => "open_append",
      Prim::OpenDir => "open_dir",
      Prim::Read => "read",
      Prim::Write => "write",
      Prim::SetLen => "set_len",
      Prim::Fsync => "fsync",
      Prim::FsyncDir => "fsync_dir",
      Prim::Rename => "rename",
      Prim::Unlink => "unlink",
      Prim::Mkdir => "mkdir",
      Prim::RmDirAll => "rmdir_all",
    }
  }
}

#[derive(Clone, Copy, Debug, PartialEq, Eq, Hash, PartialOrd, Ord)]
pub enum FaultKind {
  /// error returned, no effect
  EioBefore,
  /// effect applied, error returned
  EioAfter,
  /// write applies a prefix; further allocating calls fail until cleared
  Enospc,
}

impl FaultKind {
  pub fn name(self) -> &'static str {
    match self {
      FaultKind::EioBefore => "eio_before",
      FaultKind::EioAfter => "eio_after",
      FaultKind::Enospc => "enospc",
    }
  }
  pub fn parse(s: &str) -> Option<Self> {
    match s {
      "eio_before" => Some(FaultKind::EioBefore),
      "eio_after" => Some(FaultKind::EioAfter),
      "enospc" => Some(FaultKind::Enospc),
      _ => None,
    }
  }
}

#[derive(Clone, Copy, Debug, PartialEq, Eq)]
pub struct Fault {
  /// index of the fault-eligible primitive counted since `arm()`
  pub at: u64,
  pub kind: FaultKind,
}

#[derive(Clone, Debug, Default)]
pub struct FaultStats {
  pub eio_before: u64,
  pub eio_after: u64,
  pub enospc: u64,
  pub enospc_sticky_hits: u64,
  pub short_write: u64,
  pub eintr: u64,
}

struct Inode {
  data: Vec<u8>,
}

pub struct FsCore {
  pub root: PathBuf,
  inodes: BTreeMap<u64, Inode>,
  names: BTreeMap<PathBuf, u64>,
  dirs: BTreeSet<PathBuf>,
  next_ino: u64,
  pub initial: Vec<(PathBuf, u64, Vec<u8>)>,
  pub initial_dirs: BTreeSet<PathBuf>,
  pub log: Vec<LogEntry>,
  pub record: bool,
  pub api: Option<usize>,
  // faults
  pub armed: bool,
  pub prim_count: u64,
  pub prim_trace: Vec<Prim>,
  pub plan: Vec<Fault>,
  pub fired: Vec<(u64, Prim, FaultKind)>,
  pub enospc_sticky: bool,
  pub transparent: Option<Rng>,
  last_interrupted: bool,
  pub stats: FaultStats,
  // monitor
  pub allowed: Option<PathBuf>,
  pub escapes: Vec<(String, PathBuf)>,
  pub prims_total: u64,
}

type YieldHook = Arc<dyn Fn(Prim, &Path) + Send + Sync>;

#[derive(Clone)]
pub struct SimFs {
  pub core: Arc<Mutex<FsCore>>,
  hook: Arc<RwLock<Option<YieldHook>>>,
}

fn eio(what: &str) -> io::Error {
  io::Error::new(io::ErrorKind::Other, format!("simulated EIO at {what}"))
}

fn enospc(what: &str) -> io::Error {
  io::Error::new(
    io::ErrorKind::Other,
    format!("simulated ENOSPC (no space left on device) at {what}"),
  )
}

fn enoent(path: &Path) -> io::Error {
  io::Error::new(
    io::ErrorKind::NotFound,
    format!("No such file or directory: {}", path.display()),
  )
}

enum Gate {
  Go,
  /// perform the effect, then fail
  After,
  /// ENOSPC fired at this primitive
  NoSpace,
}

impl FsCore {
  fn new(root: &Path) -> Self {
    let mut dirs = BTreeSet::new();
    dirs.insert(root.to_path_buf());
    FsCore {
      root: root.to_path_buf(),
      inodes: BTreeMap::new(),
      names: BTreeMap::new(),
      dirs: dirs.clone(),
      next_ino: 1,
      initial: Vec::new(),
      initial_dirs: dirs,
      log: Vec::new(),
      record: true,
      api: None,
      armed: false,
      prim_count: 0,
      prim_trace: Vec::new(),
      plan: Vec::new(),
      fired: Vec::new(),
      enospc_sticky: false,
      transparent: None,
      last_interrupted: false,
      stats: FaultStats::default(),
      allowed: None,
      escapes: Vec::new(),
      prims_total: 0,
    }
  }

  fn push(&mut self, ev: Ev) {
    if self.record {
      let api = self.api;
      self.log.push(LogEntry { ev, api });
    }
  }

  fn monitor(&mut self, what: &str, path: &Path) {
    if let Some(allowed) = &self.allowed {
      if !path.starts_with(allowed) {
        self.escapes.push((what.to_string(), path.to_path_buf()));
      }
    }
  }

  /// Fault gate for one primitive. `Err` = fail before the effect.
  fn gate(&mut self, prim: Prim, what: &str) -> io::Result<Gate> {
    self.prims_total += 1;
    if !self.armed {
      return Ok(Gate::Go);
    }
    let idx = self.prim_count;
    self.prim_count += 1;
    self.prim_trace.push(prim);
    let hit = self.plan.iter().find(|f| f.at == idx).copied();
    if let Some(f) = hit {
      self.fired.push((idx, prim, f.kind));
      match f.kind {
        FaultKind::EioBefore => {
          self.stats.eio_before += 1;
          return Err(eio(what));
        }
        FaultKind::EioAfter => {
          self.stats.eio_after += 1;
          return Ok(Gate::After);
        }
        FaultKind::Enospc => {
          self.stats.enospc += 1;
          self.enospc_sticky = true;
          return Ok(Gate::NoSpace);
        }
      }
    }
    Ok(Gate::Go)
  }

  fn file_ino(&self, path: &Path) -> Option<u64> {
    self.names.get(path).copied()
  }

  fn parent_exists(&self, path: &Path) -> bool {
    match path.parent() {
      Some(p) => self.dirs.contains(p),
      None => false,
    }
  }

  pub fn live_files(&self) -> BTreeMap<PathBuf, Vec<u8>> {
    self
      .names
      .iter()
      .map(|(p, ino)| (p.clone(), self.inodes[ino].data.clone()))
      .collect()
  }

  pub fn live_dirs(&self) -> BTreeSet<PathBuf> {
    self.dirs.clone()
  }

  /// Place files on the disk without going through the traced primitives
  /// (an external tool copying a directory).
  pub fn inject_files(&mut self, files: &BTreeMap<PathBuf, Vec<u8>>, dir: &Path) {
    let root = self.root.clone();
    let mut anc = Some(dir);
    while let Some(a) = anc {
      if !a.starts_with(&root) {
        break;
      }
      self.dirs.insert(a.to_path_buf());
      anc = a.parent();
    }
    for (p, data) in files {
      let ino = self.next_ino;
      self.next_ino += 1;
      self.inodes.insert(ino, Inode { data: data.clone() });
      self.names.insert(p.clone(), ino);
      if let Some(parent) = p.parent() {
        self.dirs.insert(parent.to_path_buf());
      }
    }
  }

  /// Remove every file below `dir` (and the directories too when asked),
  /// untraced.
  pub fn purge(&mut self, dir: &Path, remove_dirs: bool) {
    let doomed: Vec<PathBuf> = self.names.keys().filter(|p| p.starts_with(dir)).cloned().collect();
    for p in doomed {
      self.names.remove(&p);
    }
    if remove_dirs {
      let dd: Vec<PathBuf> = self.dirs.iter().filter(|p| p.starts_with(dir)).cloned().collect();
      for d in dd {
        self.dirs.remove(&d);
      }
    }
  }

  /// Overwrite a file's bytes in place, untraced (media fault).
  pub fn poke(&mut self, path: &Path, data: Vec<u8>) -> bool {
    match self.names.get(path).copied() {
      Some(ino) => {
        self.inodes.get_mut(&ino).unwrap().data = data;
        true
      }
      None => false,
    }
  }

  pub fn list(&self, dir: &Path) -> Vec<PathBuf> {
    self
      .names
      .keys()
      .filter(|p| p.parent() == Some(dir))
      .cloned()
      .collect()
  }
}

impl SimFs {
  pub fn new(root: &Path) -> Self {
    SimFs {
      core: Arc::new(Mutex::new(FsCore::new(root))),
      hook: Arc::new(RwLock::new(None)),
    }
  }

  /// A disk holding exactly `files` (all durable), inode numbers assigned in
  /// path order.
  pub fn from_image(root: &Path, files: &BTreeMap<PathBuf, Vec<u8>>, dirs: &BTreeSet<PathBuf>) -> Self {
    let fs = SimFs::new(root);
    {
      let mut c = fs.core.lock().unwrap();
      for d in dirs {
        c.dirs.insert(d.clone());
      }
      for (p, data) in files {
        let ino = c.next_ino;
        c.next_ino += 1;
        c.inodes.insert(ino, Inode { data: data.clone() });
        c.names.insert(p.clone(), ino);
        c.initial.push((p.clone(), ino, data.clone()));
        let mut anc = p.parent();
        while let Some(a) = anc {
          if !a.starts_with(root) {
            break;
          }
          c.dirs.insert(a.to_path_buf());
          anc = a.parent();
        }
      }
      c.initial_dirs = c.dirs.clone();
    }
    fs
  }

  pub fn set_hook(&self, hook: Option<YieldHook>) {
    *self.hook.write().unwrap() = hook;
  }

  fn yield_point(&self, prim: Prim, path: &Path) {
    let hook = self.hook.read().unwrap().clone();
    if let Some(h) = hook {
      h(prim, path);
    }
  }

  pub fn with<R>(&self, f: impl FnOnce(&mut FsCore) -> R) -> R {
    let mut c = self.core.lock().unwrap();
    f(&mut c)
  }

  pub fn marker(&self, ev: Ev) {
    self.with(|c| {
      match &ev {
        Ev::ApiBegin { call } => c.api = Some(*call),
        Ev::ApiEnd { .. } => {}
        _ => {}
      }
      c.push(ev.clone());
      if let Ev::ApiEnd { .. } = ev {
        c.api = None;
      }
    });
  }

  pub fn arm(&self, plan: Vec<Fault>) {
    self.with(|c| {
      c.armed = true;
      c.prim_count = 0;
      c.prim_trace.clear();
      c.plan = plan;
      c.fired.clear();
    });
  }

  pub fn disarm(&self) {
    self.with(|c| {
      c.armed = false;
      c.plan.clear();
      c.enospc_sticky = false;
    });
  }
}

struct SimFile {
  fs: SimFs,
  ino: Option<u64>,
  dir: Option<PathBuf>,
  path: PathBuf,
  pos: u64,
  opts: OpenOpts,
}

impl VfsFile for SimFile {
  fn read(&mut self, buf: &mut [u8]) -> io::Result<usize> {
    self.fs.yield_point(Prim::Read, &self.path);
    let ino = self.ino.ok_or_else(|| io::Error::new(io::ErrorKind::Other, "is a directory"))?;
    if !self.opts.read {
      return Err(io::Error::new(io::ErrorKind::Other, "bad file descriptor: not open for reading"));
    }
    let mut c = self.fs.core.lock().unwrap();
    match c.gate(Prim::Read, "read")? {
      Gate::Go => {}
      Gate::After | Gate::NoSpace => return Err(eio("read")),
    }
    if !buf.is_empty() && !c.last_interrupted {
      if let Some(r) = c.transparent.as_mut() {
        if r.chance(1, 10) {
          c.last_interrupted = true;
          c.stats.eintr += 1;
          return Err(io::Error::new(io::ErrorKind::Interrupted, "simulated EINTR"));
        }
      }
    }
    c.last_interrupted = false;
    let data = &c.inodes[&ino].data;
    let pos = self.pos as usize;
    if pos >= data.len() {
      return Ok(0);
    }
    let n = (data.len() - pos).min(buf.len());
    buf[..n].copy_from_slice(&data[pos..pos + n]);
    self.pos += n as u64;
    Ok(n)
  }

  fn write(&mut self, buf: &[u8]) -> io::Result<usize> {
    self.fs.yield_point(Prim::Write, &self.path);
    let ino = self.ino.ok_or_else(|| io::Error::new(io::ErrorKind::Other, "is a directory"))?;
    if !(self.opts.write || self.opts.append) {
      return Err(io::Error::new(io::ErrorKind::Other, "bad file descriptor: not open for writing"));
    }
    let mut c = self.fs.core.lock().unwrap();
    c.monitor("write", &self.path);
    let gate = c.gate(Prim::Write, "write")?;
    let mut take = buf.len();
    let mut fail_after = false;
    match gate {
      Gate::Go => {
        if c.enospc_sticky && !buf.is_empty() {
          c.stats.enospc_sticky_hits += 1;
          return Err(enospc("write"));
        }
        if !c.last_interrupted && !buf.is_empty() {
          let mut short = None;
          let mut intr = false;
          if let Some(r) = c.transparent.as_mut() {
            if r.chance(1, 12) {
              intr = true;
            } else if buf.len() > 1 && r.chance(1, 5) {
              short = Some(1 + r.usize(buf.len() - 1));
            }
          }
          if intr {
            c.last_interrupted = true;
            c.stats.eintr += 1;
            return Err(io::Error::new(io::ErrorKind::Interrupted, "simulated EINTR"));
          }
          if let Some(n) = short {
            c.stats.short_write += 1;
            take = n;
          }
        }
        c.last_interrupted = false;
      }
      Gate::After => fail_after = true,
      Gate::NoSpace => {
        take = buf.len() / 2;
        if take == 0 {
          return Err(enospc("write"));
        }
      }
    }
    let len = c.inodes[&ino].data.len() as u64;
    let off = if self.opts.append { len } else { self.pos };
    let data = buf[..take].to_vec();
    {
      let inode = c.inodes.get_mut(&ino).unwrap();
      let end = off as usize + data.len();
      if inode.data.len() < end {
        inode.data.resize(end, 0);
      }
      inode.data[off as usize..end].copy_from_slice(&data);
    }
    self.pos = off + take as u64;
    c.push(Ev::Write { ino, off, data });
    if fail_after {
      return Err(eio("write"));
    }
    Ok(take)
  }

  fn flush(&mut self) -> io::Result<()> {
    Ok(())
  }

  fn seek(&mut self, pos: SeekFrom) -> io::Result<u64> {
    let ino = self.ino.ok_or_else(|| io::Error::new(io::ErrorKind::Other, "is a directory"))?;
    let c = self.fs.core.lock().unwrap();
    let len = c.inodes[&ino].data.len() as i64;
    let new = match pos {
      SeekFrom::Start(o) => o as i64,
      SeekFrom::End(o) => len + o,
      SeekFrom::Current(o) => self.pos as i64 + o,
    };
    if new < 0 {
      return Err(io::Error::new(io::ErrorKind::InvalidInput, "negative seek"));
    }
    self.pos = new as u64;
    Ok(self.pos)
  }

  fn set_len(&self, len: u64) -> io::Result<()> {
    self.fs.yield_point(Prim::SetLen, &self.path);
    let ino = self.ino.ok_or_else(|| io::Error::new(io::ErrorKind::Other, "is a directory"))?;
    if !(self.opts.write || self.opts.append) {
      return Err(io::Error::new(io::ErrorKind::InvalidInput, "not open for writing"));
    }
    let mut c = self.fs.core.lock().unwrap();
    c.monitor("set_len", &self.path);
    let gate = c.gate(Prim::SetLen, "set_len")?;
    let cur = c.inodes[&ino].data.len() as u64;
    if matches!(gate, Gate::NoSpace) || (c.enospc_sticky && len > cur) {
      if len > cur {
        return Err(enospc("set_len"));
      }
    }
    c.inodes.get_mut(&ino).unwrap().data.resize(len as usize, 0);
    c.push(Ev::SetLen { ino, len });
    if matches!(gate, Gate::After) {
      return Err(eio("set_len"));
    }
    Ok(())
  }

  fn sync_all(&self) -> io::Result<()> {
    let prim = if self.dir.is_some() { Prim::FsyncDir } else { Prim::Fsync };
    self.fs.yield_point(prim, &self.path);
    let mut c = self.fs.core.lock().unwrap();
    c.monitor("fsync", &self.path);
    let gate = c.gate(prim, "fsync")?;
    if matches!(gate, Gate::NoSpace) {
      return Err(eio("fsync"));
    }
    match (&self.dir, self.ino) {
      (Some(d), _) => c.push(Ev::FsyncDir { path: d.clone() }),
      (None, Some(ino)) => c.push(Ev::Fsync { ino }),
      _ => {}
    }
    if matches!(gate, Gate::After) {
      return Err(eio("fsync"));
    }
    Ok(())
  }
}

impl Vfs for SimFs {
  fn open(&self, path: &Path, opts: OpenOpts) -> io::Result<Box<dyn VfsFile>> {
    let creating = opts.create || opts.truncate;
    // directory?
    let is_dir = self.with(|c| c.dirs.contains(path));
    let prim = if is_dir {
      Prim::OpenDir
    } else if opts.append {
      Prim::OpenAppend
    } else if creating || opts.write {
      Prim::OpenCreate
    } else {
      Prim::OpenRead
    };
    self.yield_point(prim, path);
    let mut c = self.core.lock().unwrap();
    c.monitor(prim.name(), path);
    let gate = c.gate(prim, prim.name())?;
    if c.dirs.contains(path) {
      if opts.write || opts.append || creating {
        return Err(io::Error::new(io::ErrorKind::Other, "is a directory"));
      }
      if !matches!(gate, Gate::Go) {
        return Err(eio("open_dir"));
      }
      return Ok(Box::new(SimFile {
        fs: self.clone(),
        ino: None,
        dir: Some(path.to_path_buf()),
        path: path.to_path_buf(),
        pos: 0,
        opts,
      }));
    }
    let existing = c.file_ino(path);
    let ino = match existing {
      Some(ino) => {
        if opts.truncate && (opts.write || opts.append) {
          if !c.inodes[&ino].data.is_empty() {
            c.inodes.get_mut(&ino).unwrap().data.clear();
          }
          c.push(Ev::Trunc { ino });
        }
        ino
      }
      None => {
        if !opts.create {
          return Err(enoent(path));
        }
        if !c.parent_exists(path) {
          return Err(enoent(path));
        }
        if matches!(gate, Gate::NoSpace) || c.enospc_sticky {
          if !matches!(gate, Gate::NoSpace) {
            c.stats.enospc_sticky_hits += 1;
          }
          return Err(enospc("create"));
        }
        let ino = c.next_ino;
        c.next_ino += 1;
        c.inodes.insert(ino, Inode { data: Vec::new() });
        c.names.insert(path.to_path_buf(), ino);
        c.push(Ev::Create {
          ino,
          path: path.to_path_buf(),
        });
        ino
      }
    };
    match gate {
      Gate::After => return Err(eio(prim.name())),
      Gate::NoSpace if existing.is_some() => {
        // opening an existing file needs no space; the sticky flag stays set
      }
      _ => {}
    }
    Ok(Box::new(SimFile {
      fs: self.clone(),
      ino: Some(ino),
      dir: None,
      path: path.to_path_buf(),
      pos: 0,
      opts,
    }))
  }

  fn create_dir_all(&self, path: &Path) -> io::Result<()> {
    let exists = self.with(|c| c.dirs.contains(path));
    if exists {
      // no primitive: std's create_dir_all on an existing directory is a stat
      self.with(|c| c.monitor("mkdir", path));
      return Ok(());
    }
    self.yield_point(Prim::Mkdir, path);
    let mut c = self.core.lock().unwrap();
    c.monitor("mkdir", path);
    let gate = c.gate(Prim::Mkdir, "mkdir")?;
    if matches!(gate, Gate::NoSpace) || c.enospc_sticky {
      return Err(enospc("mkdir"));
    }
    if c.names.contains_key(path) {
      return Err(io::Error::new(io::ErrorKind::AlreadyExists, "file exists"));
    }
    let root = c.root.clone();
    let mut missing = Vec::new();
    let mut cur = Some(path);
    while let Some(p) = cur {
      if c.dirs.contains(p) || !p.starts_with(&root) {
        break;
      }
      missing.push(p.to_path_buf());
      cur = p.parent();
    }
    for p in missing.into_iter().rev() {
      c.dirs.insert(p.clone());
      c.push(Ev::Mkdir { path: p });
    }
    if matches!(gate, Gate::After) {
      return Err(eio("mkdir"));
    }
    Ok(())
  }

  fn rename(&self, from: &Path, to: &Path) -> io::Result<()> {
    self.yield_point(Prim::Rename, to);
    let mut c = self.core.lock().unwrap();
    c.monitor("rename", from);
    c.monitor("rename", to);
    let gate = c.gate(Prim::Rename, "rename")?;
    if matches!(gate, Gate::NoSpace) {
      return Err(enospc("rename"));
    }
    let ino = c.file_ino(from).ok_or_else(|| enoent(from))?;
    if !c.parent_exists(to) {
      return Err(enoent(to));
    }
    c.names.remove(from);
    if let Some(old) = c.names.insert(to.to_path_buf(), ino) {
      if old != ino {
        // replaced inode stays alive for open handles; never reachable by name
        let _ = old;
      }
    }
    c.push(Ev::Rename {
      from: from.to_path_buf(),
      to: to.to_path_buf(),
    });
    if matches!(gate, Gate::After) {
      return Err(eio("rename"));
    }
    Ok(())
  }

  fn remove_file(&self, path: &Path) -> io::Result<()> {
    self.yield_point(Prim::Unlink, path);
    let mut c = self.core.lock().unwrap();
    c.monitor("unlink", path);
    let gate = c.gate(Prim::Unlink, "unlink")?;
    if matches!(gate, Gate::NoSpace) {
      return Err(eio("unlink"));
    }
    if c.names.remove(path).is_none() {
      return Err(enoent(path));
    }
    c.push(Ev::Unlink {
      path: path.to_path_buf(),
    });
    if matches!(gate, Gate::After) {
      return Err(eio("unlink"));
    }
    Ok(())
  }

  fn remove_dir_all(&self, path: &Path) -> io::Result<()> {
    self.yield_point(Prim::RmDirAll, path);
    let mut c = self.core.lock().unwrap();
    c.monitor("rmdir_all", path);
    let gate = c.gate(Prim::RmDirAll, "rmdir_all")?;
    if matches!(gate, Gate::NoSpace) {
      return Err(eio("rmdir_all"));
    }
    if !c.dirs.contains(path) {
      return Err(enoent(path));
    }
    let doomed: Vec<PathBuf> = c.names.keys().filter(|p| p.starts_with(path)).cloned().collect();
    for p in doomed {
      c.names.remove(&p);
    }
    let ddirs: Vec<PathBuf> = c.dirs.iter().filter(|p| p.starts_with(path)).cloned().collect();
    for d in ddirs {
      c.dirs.remove(&d);
    }
    c.push(Ev::RmDirAll {
      path: path.to_path_buf(),
    });
    if matches!(gate, Gate::After) {
      return Err(eio("rmdir_all"));
    }
    Ok(())
  }

  fn exists(&self, path: &Path) -> bool {
    self.with(|c| {
      c.monitor("exists", path);
      c.names.contains_key(path) || c.dirs.contains(path)
    })
  }
}
