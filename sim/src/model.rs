//! Executable reference model (DESIGN §2.4): no knowledge of file formats.

use std::collections::BTreeMap;

use serde_json::Value;

/// One version of a document: unique version number + its stored projection.
#[derive(Clone, Debug, PartialEq)]
pub struct Version {
  pub ver: u64,
  pub stored: Value,
}

#[derive(Clone, Debug, PartialEq)]
pub enum QOp {
  Add { id: String, v: Version },
  Del { id: String },
}

impl QOp {
  pub fn short(&self) -> String {
    match self {
      QOp::Add { id, v } => format!("{}@{}", id, v.ver),
      QOp::Del { id } => format!("-{}", id),
    }
  }
}

pub type Contents = BTreeMap<String, Version>;

pub fn fold(base: &Contents, ops: &[QOp]) -> Contents {
  let mut out = base.clone();
  for op in ops {
    match op {
      QOp::Add { id, v } => {
        out.insert(id.clone(), v.clone());
      }
      QOp::Del { id } => {
        out.remove(id);
      }
    }
  }
  out
}

/// Does folding `ops` leave at least one added document (i.e. does the commit
/// write a new segment)?
pub fn batch_adds_segment(ops: &[QOp]) -> bool {
  let mut last: BTreeMap<&str, bool> = BTreeMap::new();
  for op in ops {
    match op {
      QOp::Add { id, .. } => {
        last.insert(id.as_str(), true);
      }
      QOp::Del { id } => {
        last.insert(id.as_str(), false);
      }
    }
  }
  last.values().any(|v| *v)
}

#[derive(Clone, Debug, Default)]
pub struct Model {
  pub committed: Contents,
  /// queued operations in the shared log, in order
  pub log: Vec<QOp>,
  pub handles: BTreeMap<usize, Vec<QOp>>,
  pub segments: usize,
  pub compact_unsafe: bool,
  /// savepoints: (length of the handle's queue, length of the shared log)
  pub marks: BTreeMap<usize, (usize, usize)>,
}

impl Model {
  pub fn new(compact_unsafe: bool) -> Self {
    Model {
      compact_unsafe,
      ..Default::default()
    }
  }

  pub fn new_writer(&mut self, h: usize) {
    self.handles.insert(h, self.log.clone());
  }

  /// Returns the value `add_document` must return.
  pub fn add(&mut self, h: usize, id: &str, v: Version) -> u32 {
    let op = QOp::Add {
      id: id.to_string(),
      v,
    };
    self.log.push(op.clone());
    let q = self.handles.get_mut(&h).expect("handle");
    q.push(op);
    q.iter().filter(|o| matches!(o, QOp::Add { .. })).count() as u32 - 1
  }

  pub fn delete(&mut self, h: usize, id: &str) {
    let op = QOp::Del { id: id.to_string() };
    self.log.push(op.clone());
    self.handles.get_mut(&h).expect("handle").push(op);
  }

  pub fn commit_result(&self, h: usize) -> Contents {
    fold(&self.committed, &self.handles[&h])
  }

  pub fn commit(&mut self, h: usize) {
    let q = self.handles.get(&h).expect("handle").clone();
    self.marks.remove(&h);
    if q.is_empty() {
      return;
    }
    self.committed = fold(&self.committed, &q);
    if batch_adds_segment(&q) {
      self.segments += 1;
    }
    self.log.clear();
    self.handles.get_mut(&h).unwrap().clear();
    self.marks.remove(&h);
  }

  pub fn rollback(&mut self, h: usize) {
    self.handles.get_mut(&h).expect("handle").clear();
    self.log.clear();
    self.marks.remove(&h);
  }

  pub fn drop_writer(&mut self, h: usize) {
    self.handles.remove(&h);
    self.marks.remove(&h);
  }

  pub fn savepoint(&mut self, h: usize) {
    let m = (self.handles.get(&h).map(|q| q.len()).unwrap_or(0), self.log.len());
    self.marks.insert(h, m);
  }

  /// Discards what the handle queued after its mark (nothing without a mark).
  pub fn rollback_to(&mut self, h: usize) {
    if let Some((q, l)) = self.marks.remove(&h) {
      if let Some(hq) = self.handles.get_mut(&h) {
        hq.truncate(q);
      }
      self.log.truncate(l);
    }
  }

  /// `Ok(changed)` or `Err` when compaction must refuse.
  pub fn compact(&mut self) -> Result<bool, ()> {
    if self.segments <= 1 {
      return Ok(false);
    }
    if self.compact_unsafe {
      return Err(());
    }
    self.segments = 1;
    Ok(true)
  }

  pub fn reopen(&mut self) {
    self.handles.clear();
    self.marks.clear();
  }
}

pub fn contents_short(c: &Contents) -> Vec<String> {
  c.iter().map(|(id, v)| format!("{}@{}", id, v.ver)).collect()
}
