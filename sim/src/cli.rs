//! Command line + generic driver shared by all engines.

use std::path::{Path, PathBuf};

use serde::de::DeserializeOwned;
use serde::Serialize;
use serde_json::{json, Value};

use crate::kit::*;
use crate::rng::{derive, Rng};

pub trait Engine: Sync {
  type Case: Clone + Serialize + DeserializeOwned + Send + Sync;
  fn name(&self) -> &'static str;
  fn level(&self) -> &'static str;
  fn generate(&self, rng: &mut Rng, thorough: bool) -> Self::Case;
  /// Execute a case; returns violations and a normalised trace.
  fn execute(&self, case: &Self::Case, wroot: &Path, stats: &mut Stats) -> (Vec<Violation>, Vec<String>);
  fn shrink(&self, case: &Self::Case) -> Vec<Self::Case>;
  fn rule(&self) -> String;
  fn assumptions(&self) -> Vec<String>;
  fn real_vs_stub(&self) -> Value;
  /// (quick, thorough) default run counts and wall-clock budgets in seconds
  fn budget(&self, thorough: bool) -> (u64, f64);
  /// counters that must not stay at zero
  fn probes(&self) -> Vec<&'static str> {
    Vec::new()
  }
  /// Turn a failing case into its most explicit form (e.g. pin the one crash
  /// image of a sweep that fails).
  fn pin(&self, case: &Self::Case, _target: &Violation, _wroot: &Path) -> Self::Case {
    case.clone()
  }
  fn sample(&self, case: &Self::Case) -> Value {
    serde_json::to_value(case).unwrap_or(Value::Null)
  }
  /// Is `b` an acceptable stand-in for `a` while shrinking? (Sites that encode
  /// a position move when operations are dropped.)
  fn shrink_match(&self, a: &Violation, b: &Violation) -> bool {
    a.same_kind(b)
  }
}

pub struct Args {
  pub mode: String,
  pub property: String,
  pub tier: String,
  pub seed: u64,
  pub runs: Option<u64>,
  pub budget: Option<f64>,
  pub replay: Option<PathBuf>,
  pub rest: Vec<String>,
}

pub fn parse_args() -> Args {
  let argv: Vec<String> = std::env::args().skip(1).collect();
  let mut a = Args {
    mode: argv.first().cloned().unwrap_or_default(),
    property: String::new(),
    tier: std::env::var("VERIF_TIER").unwrap_or_else(|_| "quick".into()),
    seed: std::env::var("VERIF_SEED").ok().and_then(|s| s.parse().ok()).unwrap_or(1),
    runs: None,
    budget: None,
    replay: None,
    rest: Vec::new(),
  };
  let mut i = 1;
  while i < argv.len() {
    let next = |i: usize| argv.get(i + 1).cloned().unwrap_or_default();
    match argv[i].as_str() {
      "--property" => {
        a.property = next(i);
        i += 1;
      }
      "--tier" => {
        a.tier = next(i);
        i += 1;
      }
      "--seed" => {
        a.seed = next(i).parse().unwrap_or(1);
        i += 1;
      }
      "--runs" => {
        a.runs = next(i).parse().ok();
        i += 1;
      }
      "--budget" => {
        a.budget = next(i).parse().ok();
        i += 1;
      }
      "--replay" => {
        a.replay = Some(PathBuf::from(next(i)));
        i += 1;
      }
      other => a.rest.push(other.to_string()),
    }
    i += 1;
  }
  if a.tier != "quick" && a.tier != "thorough" {
    a.tier = "quick".into();
  }
  a
}

fn relevant<'a>(vs: &'a [Violation], property: &str) -> Vec<&'a Violation> {
  vs.iter().filter(|v| v.properties.iter().any(|p| *p == property)).collect()
}

/// Delta-debug `case` while a violation of the same kind (class + site) for
/// `property` persists.
pub fn minimise<E: Engine>(engine: &E, property: &str, case: &E::Case, target: &Violation, wroot: &Path) -> (E::Case, Violation, u64) {
  let mut best = case.clone();
  let mut best_v = target.clone();
  let mut tried = 0u64;
  let started = std::time::Instant::now();
  loop {
    let mut improved = false;
    for cand in engine.shrink(&best) {
      if started.elapsed().as_secs_f64() > 30.0 {
        return (best, best_v, tried);
      }
      tried += 1;
      let mut st = Stats::default();
      let (vs, _) = engine.execute(&cand, wroot, &mut st);
      if let Some(v) = relevant(&vs, property).into_iter().find(|v| engine.shrink_match(target, v)) {
        best = cand;
        best_v = v.clone();
        improved = true;
        break;
      }
    }
    if !improved {
      return (best, best_v, tried);
    }
  }
}

pub fn replay_file<E: Engine>(engine: &E, path: &Path) -> Result<(Vec<Violation>, Value), String> {
  let data = std::fs::read(path).map_err(|e| format!("cannot read {}: {}", path.display(), e))?;
  let v: Value = serde_json::from_slice(&data).map_err(|e| format!("cannot parse {}: {}", path.display(), e))?;
  if v.get("engine").and_then(|e| e.as_str()) != Some(engine.name()) {
    return Err(format!("replay file is for engine {:?}, not {}", v.get("engine"), engine.name()));
  }
  let case: E::Case = serde_json::from_value(v.get("case").cloned().unwrap_or(Value::Null)).map_err(|e| format!("bad case in {}: {}", path.display(), e))?;
  let mut st = Stats::default();
  let (vs, _) = engine.execute(&case, &worker_root(0), &mut st);
  Ok((vs, v))
}

/// `simcheck <mode> --replay file`: exit 1 when the recorded violation
/// reproduces, 0 when it does not.
pub fn replay_cmd<E: Engine>(engine: &E, path: &Path) -> i32 {
  match replay_file(engine, path) {
    Err(e) => {
      eprintln!("harness error: {}", e);
      2
    }
    Ok((vs, file)) => {
      let property = file.get("property").and_then(|p| p.as_str()).unwrap_or("").to_string();
      let class = file.pointer("/violation/class").and_then(|p| p.as_str()).unwrap_or("");
      let site = file.pointer("/violation/site").and_then(|p| p.as_str()).unwrap_or("");
      let hit = vs
        .iter()
        .find(|v| v.class == class && v.site == site && v.properties.iter().any(|p| *p == property));
      match hit {
        Some(v) => {
          println!("replay reproduces: property={} class={} site={} step={}", property, v.class, v.site, v.step);
          println!("  {}", v.detail);
          println!("VIOLATION property={} replay={}", property, path.display());
          1
        }
        None => {
          println!("replay does not reproduce the recorded violation (class={} site={}); {} other violation(s)", class, site, vs.len());
          for v in vs.iter().take(3) {
            println!("  other: {} {} {}", v.class, v.site, v.detail);
          }
          0
        }
      }
    }
  }
}

pub fn drive<E: Engine>(engine: &E, args: &Args) -> i32 {
  let property = args.property.as_str();
  if let Some(path) = &args.replay {
    return replay_cmd(engine, path);
  }
  let thorough = args.tier == "thorough";
  if args.rest.iter().any(|a| a == "--trace-dump") {
    // determinism self-test support: one line per run with a hash of its
    // normalised trace; compared across fresh processes and worker counts
    let count = args.runs.unwrap_or(200);
    let batch = run_batch(count, workers(), 3600.0, usize::MAX, true, |i, w| {
      let mut rng = Rng::new(derive(args.seed, engine.name(), i));
      let case = engine.generate(&mut rng, thorough);
      let mut out = RunOut::new();
      let (vs, trace) = engine.execute(&case, &worker_root(w), &mut out.stats);
      let mut t = trace.join("\n");
      for v in vs {
        t.push_str(&format!("\nV {} {}", v.class, v.site));
      }
      out.trace = Some(t);
      out
    });
    for (i, t) in batch.traces {
      println!("{} {:016x} {}", i, crate::rng::hash_bytes(0, t.as_bytes()), t.lines().count());
    }
    return 0;
  }
  let (def_runs, def_budget) = engine.budget(thorough);
  let runs = args.runs.unwrap_or(def_runs);
  let budget = args.budget.unwrap_or(def_budget);
  let seed = args.seed;
  let findings = load_findings();
  println!("[{}] property={} tier={} seed={} runs<={} budget={}s workers={}", engine.name(), property, args.tier, seed, runs, budget, workers());

  // ---- known findings: replay each open one first
  let mut known_lines = 0;
  for f in findings.iter().filter(|f| f.property == property && f.status == "open") {
    if let Some(rp) = &f.replay {
      let path = verif_root().join(rp);
      if path.to_string_lossy().contains(&format!("/{}/", engine.name())) || rp.contains(engine.name()) {
        match replay_file(engine, &path) {
          Ok((vs, _)) => {
            if vs.iter().any(|v| v.class == f.class && v.site == f.site) {
              println!("KNOWN-FINDING: property={} {} [replayed {}]", property, f.what, rp);
              known_lines += 1;
            } else {
              println!("note: known finding `{}` no longer reproduces from {}", f.what, rp);
            }
          }
          Err(e) => {
            eprintln!("harness error: {}", e);
            return 2;
          }
        }
      }
    }
  }

  // ---- fixed findings suppress nothing: their replays must stay clean
  let mut exit = 0;
  for f in findings.iter().filter(|f| f.property == property && f.status == "fixed") {
    if let Some(rp) = &f.replay {
      if !rp.contains(engine.name()) {
        continue;
      }
      let path = verif_root().join(rp);
      match replay_file(engine, &path) {
        Ok((vs, _)) => {
          if let Some(v) = vs.iter().find(|v| v.class == f.class && v.properties.iter().any(|p| *p == property)) {
            println!("violation (regression of a fixed finding): class={} site={}", v.class, v.site);
            println!("  {}", v.detail);
            println!("VIOLATION property={} replay={}", property, path.display());
            exit = 1;
          }
        }
        Err(e) => {
          eprintln!("harness error: {}", e);
          return 2;
        }
      }
    }
  }

  // ---- determinism canary: first seeds twice
  for i in 0..6u64 {
    let mk = || {
      let mut rng = Rng::new(derive(seed, engine.name(), i));
      let case = engine.generate(&mut rng, thorough);
      let mut st = Stats::default();
      let (vs, trace) = engine.execute(&case, &worker_root(0), &mut st);
      (trace, vs.len())
    };
    let a = mk();
    let b = mk();
    // a tree that violates the property may do so in layout-dependent ways
    // (hash-map order inside files); only a clean double run is a canary
    if a.1 == 0 && b.1 == 0 && a != b {
      eprintln!("harness error: nondeterminism detected in {} run {} (traces differ)", engine.name(), i);
      return 2;
    }
  }

  // ---- the batch
  let batch = run_batch(runs, workers(), budget, 64, false, |i, w| {
    let mut rng = Rng::new(derive(seed, engine.name(), i));
    let case = engine.generate(&mut rng, thorough);
    let mut out = RunOut::new();
    let t0 = std::time::Instant::now();
    let (vs, _trace) = engine.execute(&case, &worker_root(w), &mut out.stats);
    if let Ok(limit) = std::env::var("VERIF_SLOWLOG") {
      // debugging aid: which cases are slow (never part of a verdict)
      if t0.elapsed().as_secs_f64() > limit.parse::<f64>().unwrap_or(5.0) {
        eprintln!("slow case: run {} took {:.1}s: {}", i, t0.elapsed().as_secs_f64(), serde_json::to_string(&engine.sample(&case)).unwrap_or_default().chars().take(400).collect::<String>());
      }
    }
    out.stats.inc("runs");
    for v in relevant(&vs, property) {
      out.violations.push((v.clone(), serde_json::to_value(&case).unwrap()));
    }
    for v in vs.iter() {
      if !v.properties.iter().any(|p| *p == property) {
        out.stats.inc(&format!("other_property_violation.{}", v.properties.first().copied().unwrap_or("?")));
      }
    }
    if i < 3 {
      out.sample = Some(engine.sample(&case));
    }
    out
  });

  // ---- triage
  let mut new_kinds: Vec<(u64, Violation, Value)> = Vec::new();
  let mut known_hits = 0u64;
  let mut known_sites: std::collections::BTreeSet<String> = Default::default();
  for (i, v, case) in &batch.violations {
    if let Some(f) = match_finding(&findings, property, v) {
      known_hits += 1;
      if known_sites.insert(format!("{}|{}", f.class, f.site)) && known_lines == 0 {
        println!("KNOWN-FINDING: property={} {} [run {}]", property, f.what, i);
      }
      continue;
    }
    if !new_kinds.iter().any(|(_, o, _)| o.same_kind(v)) {
      new_kinds.push((*i, v.clone(), case.clone()));
    }
  }
  let mut reported = Vec::new();
  for (i, v, case) in new_kinds.iter().take(3) {
    let case: E::Case = serde_json::from_value(case.clone()).unwrap();
    let case = engine.pin(&case, v, &worker_root(0));
    let (min_case, min_v, tried) = minimise(engine, property, &case, v, &worker_root(0));
    let min_case = engine.pin(&min_case, &min_v, &worker_root(0));
    // verify: the minimised case must fail the same way when executed again
    let reproduces = |c: &E::Case, want: &Violation| {
      let mut st = Stats::default();
      let (again, _) = engine.execute(c, &worker_root(0), &mut st);
      again.iter().any(|x| engine.shrink_match(want, x))
    };
    let (min_case, min_v) = if reproduces(&min_case, &min_v) {
      (min_case, min_v)
    } else if reproduces(&case, v) {
      // shrinking went through a run that depended on bytes the simulator does
      // not control (hash-map order inside files of a violating tree): report
      // the unminimised case
      println!("note: the minimised case did not reproduce; reporting the original case");
      (case.clone(), v.clone())
    } else {
      println!("note: violation `{}` was observed in run {} but does not replay deterministically (it depends on file bytes outside the simulator's control)", v.class, i);
      (case.clone(), v.clone())
    };
    let path = replay_path(property, &format!("{}_{}", min_v.class, min_v.site), seed, *i);
    write_json(
      &path,
      &json!({
        "engine": engine.name(),
        "property": property,
        "seed": seed,
        "run": i,
        "case": serde_json::to_value(&min_case).unwrap(),
        "violation": min_v.to_json(),
        "minimiser_candidates_tried": tried,
        "original_violation": v.to_json(),
      }),
    );
    println!("violation: class={} site={} step={}", min_v.class, min_v.site, min_v.step);
    println!("  {}", min_v.detail);
    println!("VIOLATION property={} replay={}", property, path.display());
    reported.push(min_v.to_json());
    exit = 1;
  }

  // ---- evidence
  let st = &batch.stats;
  let mut probes = serde_json::Map::new();
  for p in engine.probes() {
    probes.insert(p.to_string(), json!(st.get(p)));
  }
  let per_hour = if batch.wall_s > 0.0 { (batch.runs as f64 / batch.wall_s * 3600.0) as u64 } else { 0 };
  let extra = json!({
    "engine": engine.name(),
    "runs": batch.runs,
    "runs_per_hour": per_hour,
    "seeds": format!("derive({}, \"{}\", 0..{})", seed, engine.name(), batch.runs),
    "stopped_by_budget": batch.timed_out,
    "simulated_time": if st.get("sim_millis") > 0 {
      json!({"unit": "simulated milliseconds on tokio's paused clock (summed over requests) and logical steps", "simulated_ms": st.get("sim_millis"), "steps": st.get("steps") + st.get("sim_steps_concurrent")})
    } else {
      json!({"unit": "logical steps (no timers in this part of the system)", "steps": st.get("steps")})
    },
    "faults_fired": st.prefixed("fault."),
    "crash_images": st.prefixed("image."),
    "operations": st.prefixed("op."),
    "checks": st.prefixed("checks."),
    "probes": probes,
    "counters": st.prefixed("probe."),
    "distinct_states": {"measure": engine.rule(), "count": st.fingerprints.len(), "sites": st.sites.len()},
    "real_vs_stub": engine.real_vs_stub(),
    "known_finding_hits": known_hits,
    "new_violations": reported,
    "other_property_violations": st.prefixed("other_property_violation."),
  });
  write_evidence(EvidenceArgs {
    property,
    tier: &args.tier,
    seed,
    level: engine.level(),
    evaluations: st.get("evaluations").max(batch.runs),
    distinct_nontrivial: (st.fingerprints.len() as u64).max(st.sites.len() as u64),
    rule: &engine.rule(),
    samples: batch.samples.clone(),
    extra,
    assumptions: engine.assumptions(),
    wall_s: batch.wall_s,
    violations: reported_len(exit, &batch),
  });
  println!(
    "[{}] {} runs in {:.1}s, {} evaluations, {} distinct, {} known-finding hits, exit {}",
    engine.name(),
    batch.runs,
    batch.wall_s,
    st.get("evaluations").max(batch.runs),
    st.fingerprints.len(),
    known_hits,
    exit
  );
  for p in engine.probes() {
    if st.get(p) == 0 {
      println!("note: probe `{}` stayed at zero in this run", p);
    }
  }
  exit
}

fn reported_len(exit: i32, batch: &Batch) -> u64 {
  if exit == 0 {
    0
  } else {
    batch.violations.len() as u64
  }
}

// ---------------------------------------------------------------------------

pub fn main() -> i32 {
  // panics inside the system under test are caught and reported as
  // violations; keep the default hook quiet for them.
  std::panic::set_hook(Box::new(|_| {}));
  let args = parse_args();
  match args.mode.as_str() {
    "model" => {
      let flavour = match args.property.as_str() {
        "C04" => crate::e1_model::Flavour::C04,
        "C14" => crate::e1_model::Flavour::C14,
        "C28" => crate::e1_model::Flavour::C28,
        p => {
          eprintln!("harness error: mode model does not decide {}", p);
          return 2;
        }
      };
      drive(&crate::engines::ModelEngine { flavour }, &args)
    }
    "crash" => {
      let c02 = match args.property.as_str() {
        "C01" => false,
        "C02" => true,
        p => {
          eprintln!("harness error: mode crash does not decide {}", p);
          return 2;
        }
      };
      drive(&crate::engines::CrashEngine { c02 }, &args)
    }
    "selftest" => match args.rest.first().map(|s| s.as_str()) {
      Some("simfs") => crate::selftest::simfs_differential(args.runs.unwrap_or(20_000), args.seed),
      _ => {
        eprintln!("usage: simcheck selftest simfs [--runs N]");
        2
      }
    },
    "fault" => drive(&crate::engines::FaultEngine, &args),
    "corrupt" => drive(&crate::engines::CorruptEngine, &args),
    "corrupt-child" => crate::e1_corrupt::child_main(),
    "sched" => {
      let reader_heavy = match args.property.as_str() {
        "C05" => false,
        "C06" => true,
        p => {
          eprintln!("harness error: mode sched does not decide {}", p);
          return 2;
        }
      };
      drive(&crate::engines::SchedEngine { reader_heavy }, &args)
    }
    other => {
      eprintln!("harness error: unknown mode `{}`", other);
      2
    }
  }
}
