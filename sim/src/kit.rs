//! Common kernel: violations, statistics, parallel batch runner, replay files,
//! known findings, evidence writer.

use std::collections::{BTreeMap, BTreeSet};
use std::path::{Path, PathBuf};
use std::sync::atomic::{AtomicBool, AtomicU64, Ordering};
use std::sync::{Arc, Mutex};
use std::time::Instant;

use serde_json::{json, Value};

#[derive(Clone, Debug)]
pub struct Violation {
  /// properties this violation class belongs to
  pub properties: Vec<&'static str>,
  pub class: String,
  /// canonical short description of the failing call site / input class,
  /// used to match known findings
  pub site: String,
  pub step: usize,
  pub detail: String,
}

impl Violation {
  pub fn new(props: &[&'static str], class: &str, site: &str, step: usize, detail: String) -> Self {
    Violation {
      properties: props.to_vec(),
      class: class.to_string(),
      site: site.to_string(),
      step,
      detail,
    }
  }
  pub fn to_json(&self) -> Value {
    json!({
      "properties": self.properties,
      "class": self.class,
      "site": self.site,
      "step": self.step,
      "detail": self.detail,
    })
  }
  pub fn same_kind(&self, other: &Violation) -> bool {
    self.class == other.class && self.site == other.site
  }
}

#[derive(Clone, Debug, Default)]
pub struct Stats {
  pub counters: BTreeMap<String, u64>,
  pub fingerprints: BTreeSet<u64>,
  pub sites: BTreeSet<String>,
}

impl Stats {
  pub fn add(&mut self, key: &str, n: u64) {
    *self.counters.entry(key.to_string()).or_insert(0) += n;
  }
  pub fn inc(&mut self, key: &str) {
    self.add(key, 1);
  }
  pub fn merge(&mut self, other: &Stats) {
    for (k, v) in &other.counters {
      *self.counters.entry(k.clone()).or_insert(0) += v;
    }
    self.fingerprints.extend(other.fingerprints.iter().copied());
    self.sites.extend(other.sites.iter().cloned());
  }
  pub fn get(&self, key: &str) -> u64 {
    self.counters.get(key).copied().unwrap_or(0)
  }
  pub fn prefixed(&self, prefix: &str) -> BTreeMap<String, u64> {
    self
      .counters
      .iter()
      .filter(|(k, _)| k.starts_with(prefix))
      .map(|(k, v)| (k[prefix.len()..].to_string(), *v))
      .collect()
  }
}

pub struct RunOut {
  pub violations: Vec<(Violation, Value)>,
  pub stats: Stats,
  pub sample: Option<Value>,
  /// normalised trace (for determinism checks)
  pub trace: Option<String>,
}

impl RunOut {
  pub fn new() -> Self {
    RunOut {
      violations: Vec::new(),
      stats: Stats::default(),
      sample: None,
      trace: None,
    }
  }
}

pub struct Batch {
  pub runs: u64,
  pub violations: Vec<(u64, Violation, Value)>,
  pub stats: Stats,
  pub samples: Vec<Value>,
  pub traces: Vec<(u64, String)>,
  pub wall_s: f64,
  pub timed_out: bool,
}

/// Run `f(run_index, worker_index)` for run indices `0..n` on `workers`
/// threads; stops early at `deadline_s` or once `max_violations` were found.
/// Results are merged in run-index order, so the report does not depend on
/// the worker count.
pub fn run_batch<F>(n: u64, workers: usize, deadline_s: f64, max_violations: usize, keep_traces: bool, f: F) -> Batch
where
  F: Fn(u64, usize) -> RunOut + Send + Sync,
{
  let start = Instant::now();
  let next = AtomicU64::new(0);
  let stop = AtomicBool::new(false);
  let nviol = AtomicU64::new(0);
  let results: Mutex<Vec<(u64, RunOut)>> = Mutex::new(Vec::new());
  let timed_out = AtomicBool::new(false);
  std::thread::scope(|scope| {
    for w in 0..workers {
      let f = &f;
      let next = &next;
      let stop = &stop;
      let nviol = &nviol;
      let results = &results;
      let timed_out = &timed_out;
      std::thread::Builder::new()
        .name(format!("w{:02}", w))
        .stack_size(16 << 20)
        .spawn_scoped(scope, move || loop {
          if stop.load(Ordering::SeqCst) {
            break;
          }
          let i = next.fetch_add(1, Ordering::SeqCst);
          if i >= n {
            break;
          }
          if start.elapsed().as_secs_f64() > deadline_s {
            timed_out.store(true, Ordering::SeqCst);
            stop.store(true, Ordering::SeqCst);
            break;
          }
          let out = f(i, w);
          if !out.violations.is_empty() {
            let c = nviol.fetch_add(out.violations.len() as u64, Ordering::SeqCst) + out.violations.len() as u64;
            if c as usize >= max_violations {
              stop.store(true, Ordering::SeqCst);
            }
          }
          results.lock().unwrap().push((i, out));
        })
        .expect("spawn worker");
    }
  });
  let mut results = results.into_inner().unwrap();
  results.sort_by_key(|(i, _)| *i);
  let mut batch = Batch {
    runs: results.len() as u64,
    violations: Vec::new(),
    stats: Stats::default(),
    samples: Vec::new(),
    traces: Vec::new(),
    wall_s: 0.0,
    timed_out: timed_out.load(Ordering::SeqCst),
  };
  for (i, out) in results {
    batch.stats.merge(&out.stats);
    for (v, case) in out.violations {
      batch.violations.push((i, v, case));
    }
    if let Some(s) = out.sample {
      if batch.samples.len() < 4 {
        batch.samples.push(s);
      }
    }
    if keep_traces {
      if let Some(t) = out.trace {
        batch.traces.push((i, t));
      }
    }
  }
  batch.wall_s = start.elapsed().as_secs_f64();
  batch
}

// ---------------------------------------------------------------------------
// known findings

#[derive(Clone, Debug)]
pub struct Finding {
  pub property: String,
  pub status: String,
  pub class: String,
  pub site: String,
  pub what: String,
  pub replay: Option<String>,
  pub commit: Option<String>,
}

pub fn verif_root() -> PathBuf {
  std::env::var("VERIF_ROOT").map(PathBuf::from).unwrap_or_else(|_| PathBuf::from("/verif"))
}

pub fn load_findings() -> Vec<Finding> {
  let path = verif_root().join("known_findings.json");
  let data = match std::fs::read(&path) {
    Ok(d) => d,
    Err(_) => return Vec::new(),
  };
  let v: Value = match serde_json::from_slice(&data) {
    Ok(v) => v,
    Err(e) => {
      eprintln!("harness error: cannot parse {}: {}", path.display(), e);
      std::process::exit(2);
    }
  };
  let mut out = Vec::new();
  for f in v.get("findings").and_then(|f| f.as_array()).cloned().unwrap_or_default() {
    let s = |k: &str| f.get(k).and_then(|x| x.as_str()).unwrap_or("").to_string();
    out.push(Finding {
      property: s("property"),
      status: s("status"),
      class: s("class"),
      site: s("site"),
      what: s("what"),
      replay: f.get("replay").and_then(|x| x.as_str()).map(|x| x.to_string()),
      commit: f.get("commit").and_then(|x| x.as_str()).map(|x| x.to_string()),
    });
  }
  out
}

/// An open finding matches a violation when property, class and site agree.
pub fn match_finding<'a>(findings: &'a [Finding], property: &str, v: &Violation) -> Option<&'a Finding> {
  findings
    .iter()
    .find(|f| f.status == "open" && f.property == property && f.class == v.class && f.site == v.site)
}

// ---------------------------------------------------------------------------
// replay + evidence files

pub fn write_json(path: &Path, v: &Value) {
  if let Some(p) = path.parent() {
    let _ = std::fs::create_dir_all(p);
  }
  let data = serde_json::to_vec_pretty(v).expect("json");
  if let Err(e) = std::fs::write(path, data) {
    eprintln!("harness error: cannot write {}: {}", path.display(), e);
    std::process::exit(2);
  }
}

pub fn replay_path(property: &str, class: &str, seed: u64, run: u64) -> PathBuf {
  let clean: String = class.chars().map(|c| if c.is_ascii_alphanumeric() { c } else { '_' }).collect();
  verif_root().join("replays").join(format!("{}_{}_s{}_r{}.json", property, clean, seed, run))
}

pub struct EvidenceArgs<'a> {
  pub property: &'a str,
  pub tier: &'a str,
  pub seed: u64,
  pub level: &'a str,
  pub evaluations: u64,
  pub distinct_nontrivial: u64,
  pub rule: &'a str,
  pub samples: Vec<Value>,
  pub extra: Value,
  pub assumptions: Vec<String>,
  pub wall_s: f64,
  pub violations: u64,
}

pub fn write_evidence(a: EvidenceArgs) {
  let mut coverage = json!({
    "evaluations": a.evaluations,
    "distinct_nontrivial": a.distinct_nontrivial,
    "rule": a.rule,
    "samples": a.samples,
    "exhaustive": false,
  });
  if let (Some(c), Some(e)) = (coverage.as_object_mut(), a.extra.as_object()) {
    for (k, v) in e {
      c.insert(k.clone(), v.clone());
    }
  }
  let ev = json!({
    "property_id": a.property,
    "tier": a.tier,
    "seed": a.seed,
    "level": a.level,
    "coverage": coverage,
    "assumptions": a.assumptions,
    "wall_s": a.wall_s,
    "violations": a.violations,
  });
  let path = verif_root().join("evidence").join(format!("{}.json", a.property));
  write_json(&path, &ev);
}

pub fn workers() -> usize {
  std::env::var("VERIF_WORKERS")
    .ok()
    .and_then(|s| s.parse().ok())
    .unwrap_or_else(|| std::thread::available_parallelism().map(|n| n.get()).unwrap_or(8).min(16))
}

pub fn worker_root(w: usize) -> PathBuf {
  PathBuf::from(format!("/sim/w{:02}", w))
}

pub type Shared<T> = Arc<Mutex<T>>;
