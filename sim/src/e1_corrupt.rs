//! E1 `corrupt`: media faults between sessions (C17). A small index is built
//! on SimFs and closed; every file is then altered (single-byte xor with
//! several masks, every truncation length - sampled in the quick tier) and the
//! index reopened with the real code.

use std::collections::{BTreeMap, BTreeSet};
use std::io::Write;
use std::path::{Path, PathBuf};
use std::sync::Arc;

use searchlite_core::verif;
use serde::{Deserialize, Serialize};
use serde_json::{json, Value};

use crate::e1_model::{probes, run_probes, ProbeResults};
use crate::kit::{Stats, Violation};
use crate::model::{contents_short, fold, Contents, Model, QOp};
use crate::rng::Rng;
use crate::simfs::SimFs;
use crate::work::*;

#[derive(Clone, Debug, Serialize, Deserialize, PartialEq)]
#[serde(rename_all = "snake_case")]
pub enum Mutation {
  Flip { file: String, offset: usize, mask: u8 },
  Truncate { file: String, len: usize },
}

#[derive(Clone, Debug, Serialize, Deserialize, PartialEq)]
pub struct CorruptCase {
  pub cfg: Cfg,
  pub ops: Vec<Op>,
  /// mutations per file (0 = every byte x every mask and every truncation)
  pub per_file: usize,
  pub seed: u64,
  #[serde(default)]
  pub pin: Option<Mutation>,
}

const MASKS: [u8; 5] = [0x01, 0x02, 0x10, 0x80, 0xFF];

pub fn gen_case(rng: &mut Rng, thorough: bool) -> CorruptCase {
  let cfg = Cfg {
    storage: StorageKind::Fs,
    profile: *rng.pick(&[Profile::Basic, Profile::Basic, Profile::Nested, Profile::Rich]),
    positions: rng.chance(1, 2),
    ids: 2 + rng.usize(3),
    transparent: false,
    odd_ids: rng.chance(1, 4),
  };
  let ids: Vec<String> = id_names(&cfg);
  let mut ver = 1u64;
  let mut ops = vec![Op::NewWriter { h: 0 }];
  let commits = 1 + rng.usize(3);
  for c in 0..commits {
    let n = 1 + rng.usize(3);
    for _ in 0..n {
      ops.push(Op::Add {
        h: 0,
        id: rng.pick(&ids).clone(),
        ver,
      });
      ver += 1;
    }
    if c > 0 && rng.chance(1, 2) {
      ops.push(Op::Delete {
        h: 0,
        id: rng.pick(&ids).clone(),
      });
    }
    ops.push(Op::Commit { h: 0 });
  }
  // a non-empty log at close
  let q = rng.usize(3);
  for _ in 0..q {
    if rng.chance(2, 3) {
      ops.push(Op::Add {
        h: 0,
        id: rng.pick(&ids).clone(),
        ver,
      });
      ver += 1;
    } else {
      ops.push(Op::Delete {
        h: 0,
        id: rng.pick(&ids).clone(),
      });
    }
  }
  ops.push(Op::DropWriter { h: 0 });
  CorruptCase {
    cfg,
    ops,
    per_file: if thorough { 0 } else { 120 },
    seed: rng.next(),
    pin: None,
  }
}

fn file_class(name: &str) -> String {
  if name.ends_with("MANIFEST.json") {
    "MANIFEST.json".into()
  } else if name.ends_with("wal.log") {
    "wal.log".into()
  } else if let Some(ext) = name.rsplit('.').next() {
    format!("seg.{}", ext)
  } else {
    name.to_string()
  }
}

pub struct CorruptRun {
  pub violations: Vec<Violation>,
  pub trace: Vec<String>,
  /// the mutation behind each reported violation
  pub pins: Vec<(Violation, Mutation)>,
}

struct Baseline {
  files: BTreeMap<PathBuf, Vec<u8>>,
  dirs: BTreeSet<PathBuf>,
  contents: Contents,
  probe_results: ProbeResults,
  queue: Vec<QOp>,
  versions: BTreeSet<u64>,
}

fn open_and_read(cfg: &Cfg, wroot: &Path, root: &Path, files: &BTreeMap<PathBuf, Vec<u8>>, dirs: &BTreeSet<PathBuf>, versions: &BTreeSet<u64>, with_probes: bool, create_if_missing: bool) -> Result<(Contents, ProbeResults), Outcome> {
  let fs = SimFs::from_image(wroot, files, dirs);
  fs.with(|c| c.record = false);
  verif::fs::mount(wroot, Arc::new(fs.clone()));
  let s = Session::open_with(cfg, root, Some(fs), create_if_missing)?;
  let obs = s.observe()?;
  let contents = obs.to_contents().map_err(Outcome::Err)?;
  let pr = if with_probes {
    run_probes(s.index.as_ref().unwrap(), &probes(cfg.profile, versions))?
  } else {
    Vec::new()
  };
  Ok((contents, pr))
}

/// Recover + probe add + commit on a (possibly corrupted) image.
fn recover(cfg: &Cfg, wroot: &Path, root: &Path, files: &BTreeMap<PathBuf, Vec<u8>>, dirs: &BTreeSet<PathBuf>) -> Result<(u32, Contents), Outcome> {
  let fs = SimFs::from_image(wroot, files, dirs);
  fs.with(|c| c.record = false);
  verif::fs::mount(wroot, Arc::new(fs.clone()));
  let mut s = Session::open(cfg, root, Some(fs))?;
  match s.exec(&Op::NewWriter { h: 0 }) {
    Outcome::Ok => {}
    o => return Err(o),
  }
  let idx = match s.exec(&Op::Add {
    h: 0,
    id: "zz".into(),
    ver: 999_999,
  }) {
    Outcome::OkIndex(i) => i,
    o => return Err(o),
  };
  match s.exec(&Op::Commit { h: 0 }) {
    Outcome::Ok => {}
    o => return Err(o),
  }
  let c = s.observe()?.to_contents().map_err(Outcome::Err)?;
  Ok((idx, c))
}

/// In-process execution. `start_from` skips the first mutations (a child that
/// died is restarted behind the culprit); `progress` receives one line per
/// mutation *before* it is applied, so that the parent knows which one killed
/// the process.
pub fn run_case_inproc(case: &CorruptCase, wroot: &Path, stats: &mut Stats, start_from: usize, mut progress: Option<&mut dyn std::io::Write>) -> CorruptRun {
  let ids = SimIds::new();
  install_ids(&ids);
  let mut run = CorruptRun {
    violations: Vec::new(),
    trace: Vec::new(),
    pins: Vec::new(),
  };
  let cfg = &case.cfg;
  let root = wroot.join("a");
  // ---- build
  let fs = SimFs::new(wroot);
  fs.with(|c| c.record = false);
  verif::fs::mount(wroot, Arc::new(fs.clone()));
  let mut model = Model::new(false);
  let mut versions = BTreeSet::new();
  {
    let mut session = match Session::create(cfg, &root, Some(fs.clone())) {
      Ok(s) => s,
      Err(o) => {
        run.violations.push(Violation::new(&["C17"], "build-failed", "create", 0, o.short()));
        return run;
      }
    };
    for op in &case.ops {
      if !session.applicable(op) {
        continue;
      }
      let o = session.exec(op);
      if !o.is_ok() {
        run.violations.push(Violation::new(&["C17"], "build-failed", op.kind(), 0, format!("{} -> {}", op.short(), o.short())));
        return run;
      }
      match op {
        Op::NewWriter { h } => model.new_writer(*h),
        Op::Add { h, id, ver } => {
          versions.insert(*ver);
          model.add(*h, id, version_of(cfg.profile, id, *ver));
        }
        Op::Delete { h, id } => model.delete(*h, id),
        Op::Commit { h } => model.commit(*h),
        Op::DropWriter { h } => model.drop_writer(*h),
        _ => {}
      }
    }
  }
  let (files, dirs) = fs.with(|c| (c.live_files(), c.live_dirs()));
  let base = match open_and_read(cfg, wroot, &root, &files, &dirs, &versions, true, false) {
    Ok((contents, probe_results)) => Baseline {
      files,
      dirs,
      contents,
      probe_results,
      queue: model.log.clone(),
      versions,
    },
    Err(o) => {
      run.violations.push(Violation::new(&["C17"], "build-failed", "baseline-open", 0, o.short()));
      return run;
    }
  };
  if base.contents != model.committed {
    run.violations.push(Violation::new(
      &["C17"],
      "build-failed",
      "baseline-contents",
      0,
      format!("baseline {:?} != model {:?}", contents_short(&base.contents), contents_short(&model.committed)),
    ));
    return run;
  }
  run.trace.push(format!("built {} files, queue {}", base.files.len(), base.queue.len()));
  // ---- mutations
  let mut rng = Rng::new(case.seed);
  let mut muts: Vec<Mutation> = Vec::new();
  if let Some(p) = &case.pin {
    muts.push(p.clone());
  } else {
    for (path, data) in &base.files {
      let name = path.file_name().unwrap().to_string_lossy().to_string();
      if case.per_file == 0 {
        for off in 0..data.len() {
          for m in MASKS {
            muts.push(Mutation::Flip {
              file: name.clone(),
              offset: off,
              mask: m,
            });
          }
        }
        for len in 0..data.len() {
          muts.push(Mutation::Truncate { file: name.clone(), len });
        }
      } else if !data.is_empty() {
        let nflip = case.per_file * 3 / 4;
        for _ in 0..nflip {
          muts.push(Mutation::Flip {
            file: name.clone(),
            offset: rng.usize(data.len()),
            mask: *rng.pick(&MASKS),
          });
        }
        // the very ends of every file, always
        for len in [data.len() - 1, data.len().saturating_sub(2), data.len().saturating_sub(4), 0, 1] {
          if len < data.len() {
            muts.push(Mutation::Truncate { file: name.clone(), len });
          }
        }
        for _ in 0..(case.per_file - nflip) {
          // bias to the ends
          let len = match rng.below(4) {
            0 => rng.usize(data.len().min(16)),
            1 => data.len() - 1 - rng.usize(data.len().min(16)),
            _ => rng.usize(data.len()),
          };
          muts.push(Mutation::Truncate { file: name.clone(), len });
        }
      }
    }
  }
  for (mi, m) in muts.into_iter().enumerate() {
    if mi < start_from {
      continue;
    }
    if let Some(p) = progress.as_mut() {
      let _ = writeln!(p, "M {} {}", mi, serde_json::to_string(&m).unwrap_or_default());
      let _ = p.flush();
    }
    let (name, mutated) = match &m {
      Mutation::Flip { file, offset, mask } => {
        let path = root.join(file);
        let Some(data) = base.files.get(&path) else { continue };
        if *offset >= data.len() {
          continue;
        }
        let mut d = data.clone();
        d[*offset] ^= mask;
        stats.inc("fault.bit_flip");
        (file.clone(), (path, d))
      }
      Mutation::Truncate { file, len } => {
        let path = root.join(file);
        let Some(data) = base.files.get(&path) else { continue };
        if *len >= data.len() {
          continue;
        }
        stats.inc("fault.truncate");
        (file.clone(), (path, data[..*len].to_vec()))
      }
    };
    let class = file_class(&name);
    stats.inc("evaluations");
    stats.sites.insert(class.clone());
    let mut files = base.files.clone();
    files.insert(mutated.0.clone(), mutated.1);
    let describe = |m: &Mutation| match m {
      Mutation::Flip { file, offset, mask } => format!("byte {} of {} xor 0x{:02x}", offset, file, mask),
      Mutation::Truncate { file, len } => format!("{} truncated to {} bytes", file, len),
    };
    let is_wal = class == "wal.log";
    // applications open either strictly or with "create if missing"; a damaged
    // manifest must not be mistaken for a missing index
    let odd = match &m {
      Mutation::Flip { offset, .. } => offset % 2 == 1,
      Mutation::Truncate { len, .. } => len % 2 == 1,
    };
    // (an emptied manifest is the case most easily mistaken for "no index yet":
    // always opened with create_if_missing)
    let emptied = matches!(&m, Mutation::Truncate { len, .. } if *len == 0);
    let create_if_missing = class == "MANIFEST.json" && (odd || emptied);
    if create_if_missing {
      stats.inc("probe.opened_with_create_if_missing");
    }
    let res = open_and_read(cfg, wroot, &root, &files, &base.dirs, &base.versions, !is_wal, create_if_missing);
    let mut violation: Option<Violation> = None;
    match res {
      Err(Outcome::Panic(p)) => {
        violation = Some(Violation::new(&["C17"], "panic", &class, 0, format!("{}: open/search panicked: {}", describe(&m), p)));
      }
      Err(_) => {
        stats.inc("probe.corruption_detected");
      }
      Ok((contents, pr)) => {
        if contents != base.contents {
          violation = Some(Violation::new(
            &["C17"],
            "silent-change",
            &class,
            0,
            format!(
              "{}: open and search succeed but return {:?} instead of {:?}",
              describe(&m),
              contents_short(&contents),
              contents_short(&base.contents)
            ),
          ));
        } else if !is_wal {
          for ((label, a), (_, b)) in base.probe_results.iter().zip(pr.iter()) {
            if a != b && b.is_ok() {
              violation = Some(Violation::new(
                &["C17"],
                "silent-change",
                &class,
                0,
                format!("{}: query `{}` returns {:?} instead of {:?} without an error", describe(&m), label, b, a),
              ));
              break;
            }
          }
          if violation.is_none() {
            stats.inc("probe.corruption_harmless");
          }
        }
      }
    }
    // the log: only an intact prefix of the queue may be recovered
    if violation.is_none() && is_wal {
      match recover(cfg, wroot, &root, &files, &base.dirs) {
        Err(Outcome::Panic(p)) => {
          violation = Some(Violation::new(&["C17"], "panic", &class, 0, format!("{}: recovery panicked: {}", describe(&m), p)));
        }
        Err(_) => stats.inc("probe.corruption_detected"),
        Ok((idx, after)) => {
          let probe = QOp::Add {
            id: "zz".into(),
            v: version_of(cfg.profile, "zz", 999_999),
          };
          let ok = (0..=base.queue.len()).any(|k| {
            let mut q: Vec<QOp> = base.queue[..k].to_vec();
            let adds = q.iter().filter(|o| matches!(o, QOp::Add { .. })).count() as u32;
            q.push(probe.clone());
            adds == idx && fold(&base.contents, &q) == after
          });
          if ok {
            stats.inc("probe.log_prefix_recovered");
          } else {
            violation = Some(Violation::new(
              &["C17"],
              "log-not-a-prefix",
              &class,
              0,
              format!(
                "{}: queue was {:?}; a new writer's probe add returned {} and committing gave {:?}, which is no prefix of the queue",
                describe(&m),
                base.queue.iter().map(|o| o.short()).collect::<Vec<_>>(),
                idx,
                contents_short(&after)
              ),
            ));
          }
        }
      }
    }
    if let Some(v) = violation {
      // one report per (class, file class); keep going so that a finding in one
      // file class does not hide the others
      if !run.violations.iter().any(|x| x.same_kind(&v)) {
        run.pins.push((v.clone(), m.clone()));
        run.violations.push(v);
      }
    }
  }
  let shape = format!("{:?}|{}", cfg.profile, case.ops.iter().map(|o| o.kind()).collect::<Vec<_>>().join(","));
  stats.fingerprints.insert(crate::rng::hash_bytes(17, shape.as_bytes()));
  verif::fs::unmount(wroot);
  run
}

/// Every case runs in a child process: a corrupted length can turn into an
/// impossible allocation, which aborts the process instead of unwinding. The
/// parent turns such a death into a violation and restarts the child behind
/// the mutation that caused it.
pub fn run_case(case: &CorruptCase, wroot: &Path, stats: &mut Stats) -> CorruptRun {
  use std::io::{BufRead, BufReader, Write as _};
  use std::process::{Command, Stdio};
  let mut run = CorruptRun {
    violations: Vec::new(),
    trace: Vec::new(),
    pins: Vec::new(),
  };
  let exe = match std::env::current_exe() {
    Ok(e) => e,
    Err(_) => return run_case_inproc(case, wroot, stats, 0, None),
  };
  let mut start_from = 0usize;
  for _round in 0..6 {
    let mut child = match Command::new(&exe).arg("corrupt-child").stdin(Stdio::piped()).stdout(Stdio::piped()).stderr(Stdio::null()).spawn() {
      Ok(c) => c,
      Err(_) => return run_case_inproc(case, wroot, stats, start_from, None),
    };
    let req = json!({"case": case, "wroot": wroot, "start_from": start_from});
    if let Some(mut stdin) = child.stdin.take() {
      let _ = stdin.write_all(serde_json::to_string(&req).unwrap().as_bytes());
    }
    let mut last: Option<(usize, Mutation)> = None;
    let mut done = false;
    let mut hung = false;
    if let Some(out) = child.stdout.take() {
      // lines arrive through a channel so that a child that stops making
      // progress (an endless loop on corrupted data) can be told from a slow one
      let (tx, rx) = std::sync::mpsc::channel::<String>();
      let reader = std::thread::spawn(move || {
        for line in BufReader::new(out).lines().map_while(|l| l.ok()) {
          if tx.send(line).is_err() {
            break;
          }
        }
      });
      loop {
        let line = match rx.recv_timeout(std::time::Duration::from_secs(60)) {
          Ok(l) => l,
          Err(std::sync::mpsc::RecvTimeoutError::Timeout) => {
            hung = true;
            let _ = child.kill();
            break;
          }
          Err(std::sync::mpsc::RecvTimeoutError::Disconnected) => break,
        };
        if let Some(rest) = line.strip_prefix("M ") {
          let mut it = rest.splitn(2, ' ');
          let idx = it.next().and_then(|s| s.parse::<usize>().ok());
          let m = it.next().and_then(|s| serde_json::from_str::<Mutation>(s).ok());
          if let (Some(i), Some(m)) = (idx, m) {
            last = Some((i, m));
          }
        } else if let Some(rest) = line.strip_prefix("R ") {
          if let Ok(v) = serde_json::from_str::<Value>(rest) {
            for x in v.get("violations").and_then(|x| x.as_array()).cloned().unwrap_or_default() {
              let viol = Violation::new(
                &["C17"],
                x.get("class").and_then(|s| s.as_str()).unwrap_or(""),
                x.get("site").and_then(|s| s.as_str()).unwrap_or(""),
                0,
                x.get("detail").and_then(|s| s.as_str()).unwrap_or("").to_string(),
              );
              if let Some(m) = x.get("pin").and_then(|p| serde_json::from_value::<Mutation>(p.clone()).ok()) {
                run.pins.push((viol.clone(), m));
              }
              if !run.violations.iter().any(|o| o.same_kind(&viol)) {
                run.violations.push(viol);
              }
            }
            for (k, n) in v.get("counters").and_then(|c| c.as_object()).cloned().unwrap_or_default() {
              stats.add(&k, n.as_u64().unwrap_or(0));
            }
            for s in v.get("sites").and_then(|c| c.as_array()).cloned().unwrap_or_default() {
              if let Some(s) = s.as_str() {
                stats.sites.insert(s.to_string());
              }
            }
            for f in v.get("fingerprints").and_then(|c| c.as_array()).cloned().unwrap_or_default() {
              if let Some(f) = f.as_u64() {
                stats.fingerprints.insert(f);
              }
            }
            for t in v.get("trace").and_then(|c| c.as_array()).cloned().unwrap_or_default() {
              if let Some(t) = t.as_str() {
                run.trace.push(t.to_string());
              }
            }
            done = true;
          }
        }
      }
      drop(rx);
      let _ = reader.join();
    }
    let status = child.wait();
    if done {
      break;
    }
    // the child died (abort / signal) while working on `last`
    match last {
      Some((i, m)) => {
        let (file, what) = match &m {
          Mutation::Flip { file, offset, mask } => (file.clone(), format!("byte {} of {} xor 0x{:02x}", offset, file, mask)),
          Mutation::Truncate { file, len } => (file.clone(), format!("{} truncated to {} bytes", file, len)),
        };
        stats.inc("probe.child_process_died");
        let viol = if hung {
          Violation::new(
            &["C17"],
            "hang",
            &file_class(&file),
            0,
            format!("{}: opening / searching the index made no progress for 60 s (endless loop on corrupted data?); the process was killed", what),
          )
        } else {
          Violation::new(
            &["C17"],
            "abort",
            &file_class(&file),
            0,
            format!("{}: opening / searching the index killed the process ({:?}) - e.g. an allocation sized by a corrupted length", what, status.map(|s| s.to_string())),
          )
        };
        if !run.violations.iter().any(|o| o.same_kind(&viol)) {
          run.pins.push((viol.clone(), m));
          run.violations.push(viol);
        }
        run.trace.push(format!("child died at mutation {}", i));
        start_from = i + 1;
        if case.pin.is_some() {
          break;
        }
      }
      None => {
        run.violations.push(Violation::new(&["C17"], "abort", "build", 0, "the child process died before the first mutation".into()));
        break;
      }
    }
  }
  run
}

/// Entry point of the child process (`simcheck corrupt-child`).
pub fn child_main() -> i32 {
  use std::io::Read as _;
  let mut input = String::new();
  if std::io::stdin().read_to_string(&mut input).is_err() {
    return 2;
  }
  let Ok(v) = serde_json::from_str::<Value>(&input) else { return 2 };
  let Ok(case) = serde_json::from_value::<CorruptCase>(v.get("case").cloned().unwrap_or(Value::Null)) else { return 2 };
  let wroot = PathBuf::from(v.get("wroot").and_then(|w| w.as_str()).unwrap_or("/sim/w00"));
  let start_from = v.get("start_from").and_then(|s| s.as_u64()).unwrap_or(0) as usize;
  let mut stats = Stats::default();
  let stdout = std::io::stdout();
  let mut lock = stdout.lock();
  let run = run_case_inproc(&case, &wroot, &mut stats, start_from, Some(&mut lock));
  let viols: Vec<Value> = run
    .violations
    .iter()
    .map(|x| {
      let pin = run.pins.iter().find(|(v, _)| v.same_kind(x)).map(|(_, m)| serde_json::to_value(m).unwrap());
      json!({"class": x.class, "site": x.site, "detail": x.detail, "pin": pin})
    })
    .collect();
  let out = json!({
    "violations": viols,
    "counters": stats.counters,
    "sites": stats.sites.iter().collect::<Vec<_>>(),
    "fingerprints": stats.fingerprints.iter().collect::<Vec<_>>(),
    "trace": run.trace,
  });
  use std::io::Write as _;
  let _ = writeln!(lock, "R {}", out);
  0
}

pub fn shrink_candidates(case: &CorruptCase) -> Vec<CorruptCase> {
  let mut out = Vec::new();
  let n = case.ops.len();
  for i in (0..n).rev() {
    let mut c = case.clone();
    c.ops.remove(i);
    c.pin = None;
    out.push(c);
  }
  if case.cfg.profile != Profile::Basic {
    let mut c = case.clone();
    c.cfg.profile = Profile::Basic;
    c.pin = None;
    out.push(c);
  }
  out
}

pub fn sample_json(case: &CorruptCase) -> Value {
  json!({
    "cfg": case.cfg,
    "build": case.ops.iter().map(|o| o.short()).collect::<Vec<_>>(),
    "mutations_per_file": if case.per_file == 0 { json!("every byte x 5 masks + every truncation") } else { json!(case.per_file) },
  })
}
