//! Workload vocabulary shared by the E1/E2 engines: schema profiles, document
//! generation, the independent stored-projection function, operations, and the
//! `Session` that executes operations against the real searchlite-core.

use std::collections::{BTreeMap, BTreeSet};
use std::panic::{catch_unwind, AssertUnwindSafe};
use std::path::{Path, PathBuf};
use std::sync::atomic::{AtomicU64, Ordering};
use std::sync::Arc;

use searchlite_core::api::types::{Document, IndexOptions, Schema, SearchRequest, StorageType};
use searchlite_core::api::{Index, IndexReader, IndexWriter};
use searchlite_core::storage::{InMemoryStorage, Storage};
use searchlite_core::verif;
use serde::{Deserialize, Serialize};
use serde_json::{json, Value};

use crate::model::{Contents, Version};
use crate::rng::Rng;
use crate::simfs::SimFs;

// ---------------------------------------------------------------------------
// ids / clock seam

pub struct SimIds {
  seg: AtomicU64,
  uuid: AtomicU64,
}

impl SimIds {
  pub fn new() -> Arc<Self> {
    Arc::new(SimIds {
      seg: AtomicU64::new(1),
      uuid: AtomicU64::new(1),
    })
  }
}

impl verif::ids::IdSource for SimIds {
  fn segment_id(&self) -> String {
    let n = self.seg.fetch_add(1, Ordering::SeqCst);
    format!("{:032x}", n)
  }
  fn index_uuid(&self) -> uuid::Uuid {
    let n = self.uuid.fetch_add(1, Ordering::SeqCst);
    uuid::Uuid::from_u128(0x5157_0000_0000_4000_8000_0000_0000_0000u128 | n as u128)
  }
  fn now_rfc3339(&self) -> String {
    "2026-01-01T00:00:00.000000000+00:00".to_string()
  }
}

pub fn install_ids(ids: &Arc<SimIds>) {
  verif::ids::set_thread_source(Some(ids.clone()));
}

// ---------------------------------------------------------------------------
// profiles

#[derive(Clone, Copy, Debug, PartialEq, Eq, Serialize, Deserialize, Hash, PartialOrd, Ord)]
#[serde(rename_all = "snake_case")]
pub enum Profile {
  Basic,
  Nested,
  Unsafe,
  /// nested object with a non-stored, nullable, indexed+fast property:
  /// compaction cannot rebuild it and must refuse
  UnsafeNested,
  /// basic + a nullable multi-valued text field, a stored non-fast keyword
  /// field, a nullable multi-valued i64 field and a nullable f64 field
  Rich,
}

impl Profile {
  pub fn compact_unsafe(self) -> bool {
    matches!(self, Profile::Unsafe | Profile::UnsafeNested)
  }
  pub fn nested(self) -> bool {
    matches!(self, Profile::Nested | Profile::UnsafeNested)
  }
}

#[derive(Clone, Copy, Debug, PartialEq, Eq, Serialize, Deserialize, Hash, PartialOrd, Ord)]
#[serde(rename_all = "snake_case")]
pub enum StorageKind {
  Fs,
  Mem,
}

#[derive(Clone, Debug, Serialize, Deserialize, PartialEq)]
pub struct Cfg {
  pub storage: StorageKind,
  pub profile: Profile,
  pub positions: bool,
  pub ids: usize,
  #[serde(default)]
  pub transparent: bool,
  /// unusual but valid document ids (case variants, surrounding whitespace,
  /// control and non-ASCII characters, length)
  #[serde(default)]
  pub odd_ids: bool,
}

const ODD_IDS: [&str; 10] = [
  "d0",
  "D0",
  " d0",
  "d0 ",
  "d\u{e9}\u{4e16}",
  "d\t1",
  "a/b\\c\"q\"",
  "dddddddddddddddddddddddddddddddddddddddddddddddddddddddddddddddddddddddddddddddd",
  "d\n2",
  "xyzxyzxyzxyzxyzxyzxyzxyzxyzxyzxyzxyzxyzxyzxyzxyzxyzxyzxyzxyzxyzxyzxyzxyzxyzxyzxyzxyzxyzxyzxyzxyzxyzxyzxyzxyzxyzxyzxyzxyzxyzxyzxyzxyzxyzxyzxyzxyzxyzxyzxyzxyzxyzxyzxyzxyzxyzxyzxyzxyzxyzxyzxyzxyzxyzxyzxyzxyzxyzxyzxyzxyzxyzxyzxyzxyzxyzxyzxyzxyzxyzxyzxyzxyzxyzxyzxyzxyzxyzxyzxyzxyzxyzxyzxyzxyzxyzxyzxyzxyzxyzxyzxyzxyzxyzxyzxyzxyzxyzxyzxyzxyzxyzxyzxyzxyzxyzxyzxyzxyzxyzxyzxyzxyzxyzxyzxyzxyzxyzxyzxyzxyzxyzxyzxyzxyzxyzxyzxyzxyzxyzxyzxyzxyzxyzxyzxyzxyzxyzxyzxyzxyzxyzxyzxyzxyzxyzxyzxyzxyzxyzxyzxyzxyzxyzxyzxyzxyzxyzxyzxyzxyz",
];

pub fn id_names(cfg: &Cfg) -> Vec<String> {
  if cfg.odd_ids {
    (0..cfg.ids).map(|i| ODD_IDS[i % ODD_IDS.len()].to_string()).collect()
  } else {
    (0..cfg.ids).map(|i| format!("d{}", i)).collect()
  }
}

pub fn schema(profile: Profile) -> Schema {
  let mut v = json!({
    "doc_id_field": "_id",
    "text_fields": [
      {"name": "body", "analyzer": "default", "stored": true, "indexed": true}
    ],
    "keyword_fields": [
      {"name": "tag", "stored": true, "indexed": true, "fast": true}
    ],
    "numeric_fields": [
      {"name": "n", "i64": true, "fast": true, "stored": true}
    ],
    "nested_fields": []
  });
  if cfg!(feature = "vectors") {
    v["vector_fields"] = json!([]);
  }
  match profile {
    Profile::Basic => {}
    Profile::Rich => {
      v["text_fields"].as_array_mut().unwrap().push(json!(
        {"name": "title", "analyzer": "default", "stored": true, "indexed": true, "nullable": true}
      ));
      v["keyword_fields"].as_array_mut().unwrap().push(json!(
        {"name": "cat", "stored": true, "indexed": true, "fast": false, "nullable": true}
      ));
      v["numeric_fields"].as_array_mut().unwrap().push(json!(
        {"name": "m", "i64": true, "fast": true, "stored": true, "nullable": true}
      ));
      v["numeric_fields"].as_array_mut().unwrap().push(json!(
        {"name": "price", "i64": false, "fast": true, "stored": true, "nullable": true}
      ));
    }
    Profile::Unsafe => {
      v["text_fields"].as_array_mut().unwrap().push(json!(
        {"name": "hid", "analyzer": "default", "stored": false, "indexed": true}
      ));
    }
    Profile::Nested | Profile::UnsafeNested => {
      v["nested_fields"] = json!([
        {
          "name": "items",
          "nullable": true,
          "fields": [
            {"type": "keyword", "name": "k", "stored": true, "indexed": true, "fast": true, "nullable": true},
            {"type": "numeric", "name": "q", "i64": true, "fast": true, "stored": true, "nullable": true},
            {"type": "object", "name": "subs", "nullable": true, "fields": [
              {"type": "keyword", "name": "s", "stored": true, "indexed": true, "fast": true}
            ]}
          ]
        }
      ]);
      if profile == Profile::UnsafeNested {
        v["nested_fields"][0]["fields"].as_array_mut().unwrap().push(json!(
          {"type": "keyword", "name": "lang", "stored": false, "indexed": true, "fast": true, "nullable": true}
        ));
      }
    }
  }
  serde_json::from_value(v).expect("schema json")
}

/// versions from here on always produce token-less documents (used by E4)
pub const BLANK_VERSIONS: u64 = 5_000_000;
/// versions in [BIG_VERSIONS, BLANK_VERSIONS) produce long documents (hundreds
/// to thousands of tokens, ~5-25 KiB of stored text): their segment files and
/// log records are written with several write calls, not one
pub const BIG_VERSIONS: u64 = 1_000_000;

pub fn is_big(ver: u64) -> bool {
  (BIG_VERSIONS..BLANK_VERSIONS).contains(&ver)
}
const WORDS: [&str; 6] = ["alpha", "beta", "gamma", "delta", "omega", "sigma"];
const TAGS: [&str; 4] = ["red", "green", "blue", "grey"];

pub fn make_doc(profile: Profile, id: &str, ver: u64) -> Document {
  let mut x = ver.wrapping_mul(0x9E37_79B9_7F4A_7C15) ^ 0xD1B5_4A32_D192_ED03;
  let mut nextr = || crate::rng::splitmix(&mut x);
  let mut fields: BTreeMap<String, Value> = BTreeMap::new();
  fields.insert("_id".into(), json!(id));
  // one document in eight has no indexable token at all (empty or
  // punctuation-only text, no tag): commits made only of such documents produce
  // zero-length postings files
  let blank = ver % 8 == 5 || ver >= BLANK_VERSIONS;
  let nwords = 1 + (nextr() % 3) as usize;
  let mut words: Vec<String> = (0..nwords).map(|_| WORDS[(nextr() % 6) as usize].to_string()).collect();
  words.push(format!("v{}", ver));
  if blank {
    fields.insert("body".into(), json!(["", "?!", "... --"][(ver % 3) as usize]));
    fields.insert("n".into(), json!(ver as i64));
    return Document { fields };
  }
  if is_big(ver) {
    // one long document in three is very long (20-150 KiB of stored text, mostly
    // beyond 64 KiB)
    let extra = if ver % 97 == 0 {
      // (rarely: a giant document, well over 1 MiB)
      300_000
    } else {
      (300 + (nextr() % 6) as usize * 400) * if ver % 3 == 0 { 12 } else { 1 }
    };
    let span = 50 + (nextr() % 4000);
    for i in 0..extra {
      words.push(format!("w{}", (nextr() % span) + (i as u64 % 7)));
    }
  }
  fields.insert("body".into(), json!(words.join(" ")));
  let tag = match nextr() % 5 {
    0 => json!([]),
    1 => json!(TAGS[(nextr() % 4) as usize]),
    2 => json!([TAGS[(nextr() % 4) as usize]]),
    3 => json!([TAGS[(nextr() % 4) as usize], TAGS[(nextr() % 4) as usize]]),
    _ => Value::Null, // field omitted
  };
  if !tag.is_null() {
    fields.insert("tag".into(), tag);
  }
  fields.insert("n".into(), json!(ver as i64));
  match profile {
    Profile::Basic => {}
    Profile::Rich => {
      match nextr() % 6 {
        0 => {}
        1 => {
          fields.insert("title".into(), Value::Null);
        }
        2 => {
          fields.insert("title".into(), json!(format!("Title zeta t{}", ver % 5)));
        }
        3 => {
          fields.insert("title".into(), json!(["one", "two words zeta"]));
        }
        4 => {
          fields.insert("title".into(), json!(["solo"]));
        }
        _ => {
          fields.insert("title".into(), json!([]));
        }
      }
      match nextr() % 5 {
        0 => {}
        1 => {
          fields.insert("cat".into(), Value::Null);
        }
        2 => {
          fields.insert("cat".into(), json!("News"));
        }
        3 => {
          fields.insert("cat".into(), json!(["a", "B", "news"]));
        }
        _ => {
          fields.insert("cat".into(), json!(["sport"]));
        }
      }
      match nextr() % 7 {
        0 => {}
        1 => {
          fields.insert("m".into(), Value::Null);
        }
        2 => {
          fields.insert("m".into(), json!((ver % 9) as i64));
        }
        3 => {
          fields.insert("m".into(), json!([1, 2, 3]));
        }
        4 => {
          fields.insert("m".into(), json!([]));
        }
        5 => {
          fields.insert("m".into(), json!([-7]));
        }
        _ => {
          fields.insert("m".into(), json!([9007199254740993i64, -(ver as i64)]));
        }
      }
      match nextr() % 8 {
        0 => {}
        1 => {
          fields.insert("price".into(), Value::Null);
        }
        2 => {
          fields.insert("price".into(), json!(4));
        }
        3 => {
          fields.insert("price".into(), json!(2.5));
        }
        4 => {
          fields.insert("price".into(), json!(3.0));
        }
        5 => {
          fields.insert("price".into(), json!([1.5, -0.25]));
        }
        6 => {
          fields.insert("price".into(), json!(1e15));
        }
        _ => {
          fields.insert("price".into(), json!([1e-7, (ver % 4) as i64]));
        }
      }
    }
    Profile::Unsafe => {
      fields.insert("hid".into(), json!(format!("secret{} hid{}", nextr() % 3, ver)));
    }
    Profile::Nested | Profile::UnsafeNested => {
      let with_lang = profile == Profile::UnsafeNested;
      let item = |r: u64, ver: u64| -> Value {
        let k = ["a", "b", "c"][(r % 3) as usize];
        let mut o = match (r / 3) % 7 {
          // objects without a (non-null) leaf of their own, only children
          5 => json!({"subs": [{"s": "y"}, {"s": k}]}),
          6 => json!({"k": null, "q": null, "subs": {"s": "x"}}),
          0 => json!({"k": k}),
          1 => json!({"k": k, "q": (ver % 7) as i64}),
          2 => json!({"k": [k, "z"], "q": null, "subs": [{"s": "x"}, {"s": "y"}]}),
          3 => json!({"k": k, "q": 3, "subs": {"s": k}}),
          _ => json!({"k": k, "subs": []}),
        };
        if with_lang {
          match (r / 15) % 3 {
            0 => {
              o["lang"] = json!(["en", "fr", "de"][((r / 45) % 3) as usize]);
            }
            1 => {
              o["lang"] = Value::Null;
            }
            _ => {}
          }
        }
        o
      };
      match nextr() % 6 {
        0 => {}
        1 => {
          fields.insert("items".into(), json!([]));
        }
        2 => {
          fields.insert("items".into(), item(nextr(), ver));
        }
        3 => {
          fields.insert("items".into(), json!([item(nextr(), ver), item(nextr(), ver)]));
        }
        4 => {
          fields.insert(
            "items".into(),
            json!([item(nextr(), ver), item(nextr(), ver), item(nextr(), ver)]),
          );
        }
        _ => {
          fields.insert("items".into(), Value::Null);
        }
      }
    }
  }
  Document { fields }
}

/// Independent statement of the stored projection (what a hit's `fields` must
/// be for a document), written from the documented behaviour: non-stored
/// fields are dropped, multi-valued fields read back as arrays except that a
/// single value reads back as a scalar, nested objects keep their structure
/// minus nulls, unstored properties and empty containers.
pub fn stored_projection(profile: Profile, doc: &Document) -> Value {
  let mut out = serde_json::Map::new();
  for (k, v) in &doc.fields {
    match k.as_str() {
      "_id" => {
        out.insert(k.clone(), v.clone());
      }
      "body" | "tag" | "n" => {
        let vals: Vec<Value> = match v {
          Value::Array(a) => a.clone(),
          Value::Null => continue,
          other => vec![other.clone()],
        };
        if vals.len() == 1 {
          out.insert(k.clone(), vals.into_iter().next().unwrap());
        } else {
          out.insert(k.clone(), Value::Array(vals));
        }
      }
      "hid" => {}
      "title" | "cat" | "m" | "price" if profile == Profile::Rich => {
        // nullable fields read back as an empty list when null; f64 fields
        // read back as floats whatever the JSON number looked like
        let vals: Vec<Value> = match v {
          Value::Array(a) => a.clone(),
          Value::Null => Vec::new(),
          other => vec![other.clone()],
        };
        let vals: Vec<Value> = if k == "price" { vals.iter().map(|x| json!(x.as_f64().unwrap_or(0.0))).collect() } else { vals };
        if vals.len() == 1 {
          out.insert(k.clone(), vals.into_iter().next().unwrap());
        } else {
          out.insert(k.clone(), Value::Array(vals));
        }
      }
      "items" if profile.nested() => {
        if let Some(p) = project_nested(v, 0) {
          out.insert(k.clone(), p);
        }
      }
      _ => {}
    }
  }
  Value::Object(out)
}

fn project_nested(v: &Value, depth: usize) -> Option<Value> {
  match v {
    Value::Array(a) => {
      let kept: Vec<Value> = a.iter().filter_map(|e| project_nested(e, depth)).collect();
      if kept.is_empty() {
        None
      } else {
        Some(Value::Array(kept))
      }
    }
    Value::Object(m) => {
      let mut out = serde_json::Map::new();
      let props: &[&str] = if depth == 0 { &["k", "q", "subs"] } else { &["s"] };
      for p in props {
        if let Some(raw) = m.get(*p) {
          if raw.is_null() {
            continue;
          }
          if *p == "subs" {
            if let Some(c) = project_nested(raw, depth + 1) {
              out.insert((*p).to_string(), c);
            }
          } else {
            out.insert((*p).to_string(), raw.clone());
          }
        }
      }
      if out.is_empty() {
        None
      } else {
        Some(Value::Object(out))
      }
    }
    _ => None,
  }
}

pub fn version_of(profile: Profile, id: &str, ver: u64) -> Version {
  let doc = make_doc(profile, id, ver);
  Version {
    ver,
    stored: stored_projection(profile, &doc),
  }
}

// ---------------------------------------------------------------------------
// operations

#[derive(Clone, Debug, Serialize, Deserialize, PartialEq)]
#[serde(rename_all = "snake_case")]
pub enum Op {
  NewWriter { h: usize },
  Add { h: usize, id: String, ver: u64 },
  Delete { h: usize, id: String },
  /// `delete_documents` with several ids in one call
  DeleteMany { h: usize, ids: Vec<String> },
  Commit { h: usize },
  Rollback { h: usize },
  DropWriter { h: usize },
  Compact,
  Reopen,
  /// copy the index to a new root; 0 keep the original, 1 empty it, 2 remove it,
  /// 3 keep it and keep its `Index` handle open in this process
  Relocate {
    original: u8,
    /// name of the new root: 0 unrelated, 1 a textual prefix of the current
    /// name, 2 the current name plus a suffix; +3: the copy is opened through
    /// a storage object that was created for the original root
    #[serde(default)]
    naming: u8,
  },
  /// mark the end of the handle's queue
  Savepoint { h: usize },
  /// discard what the handle queued after its mark
  RollbackTo { h: usize },
  /// open a reader and keep it
  OpenReader { r: usize },
  /// search again on a kept reader: must still show its snapshot
  CheckReader { r: usize },
  /// `inner` (a commit or a compaction) runs with one storage fault armed at
  /// its `at`-th primitive; when it fails it is retried on healthy storage
  Faulty { inner: Box<Op>, at: u32, kind: String },
}

impl Op {
  pub fn kind(&self) -> &'static str {
    match self {
      Op::NewWriter { .. } => "new_writer",
      Op::Add { .. } => "add",
      Op::Delete { .. } => "delete",
      Op::DeleteMany { .. } => "delete_many",
      Op::Commit { .. } => "commit",
      Op::Rollback { .. } => "rollback",
      Op::DropWriter { .. } => "drop_writer",
      Op::Compact => "compact",
      Op::Reopen => "reopen",
      Op::Relocate { .. } => "relocate",
      Op::Savepoint { .. } => "savepoint",
      Op::RollbackTo { .. } => "rollback_to",
      Op::OpenReader { .. } => "open_reader",
      Op::CheckReader { .. } => "check_reader",
      Op::Faulty { .. } => "faulty",
    }
  }
  pub fn short(&self) -> String {
    match self {
      Op::NewWriter { h } => format!("w{}=writer()", h),
      Op::Add { h, id, ver } => format!("w{}.add({}@{})", h, id, ver),
      Op::Delete { h, id } => format!("w{}.delete({})", h, id),
      Op::DeleteMany { h, ids } => format!("w{}.delete_documents({:?})", h, ids),
      Op::Commit { h } => format!("w{}.commit()", h),
      Op::Rollback { h } => format!("w{}.rollback()", h),
      Op::DropWriter { h } => format!("drop(w{})", h),
      Op::Compact => "compact()".into(),
      Op::Reopen => "reopen()".into(),
      Op::Relocate { original, naming } => format!("relocate(original={}, naming={})", original, naming),
      Op::Savepoint { h } => format!("w{}.savepoint()", h),
      Op::RollbackTo { h } => format!("w{}.rollback_to(mark)", h),
      Op::OpenReader { r } => format!("r{}=reader()", r),
      Op::CheckReader { r } => format!("r{}.search()", r),
      Op::Faulty { inner, at, kind } => format!("{} with {} at primitive {}", inner.short(), kind, at),
    }
  }
  pub fn handle(&self) -> Option<usize> {
    match self {
      Op::NewWriter { h }
      | Op::Add { h, .. }
      | Op::Delete { h, .. }
      | Op::DeleteMany { h, .. }
      | Op::Commit { h }
      | Op::Rollback { h }
      | Op::Savepoint { h }
      | Op::RollbackTo { h }
      | Op::DropWriter { h } => Some(*h),
      _ => None,
    }
  }
}

#[derive(Clone, Debug)]
pub struct GenParams {
  pub len: usize,
  pub max_handles: usize,
  pub overlap: bool,
  /// weights: new_writer, add, delete, commit, rollback, drop, compact, reopen, relocate,
  /// open_reader, check_reader
  pub weights: [u32; 11],
  /// one add in `big_every` carries a long document (0 = never)
  pub big_every: u32,
  /// an add is followed by a burst of this many further adds on consecutive
  /// ids with probability 1/4 (0 = never): segments with hundreds of documents
  pub burst: u32,
  /// one add in six is wrapped in savepoint() ... rollback_to(): only with one
  /// live handle at a time
  pub savepoints: bool,
  /// now and then a handle deletes every id, commits, and the index is
  /// compacted (an index whose segments hold no live document)
  pub purge: bool,
  /// one delete in four goes through `delete_documents` with 2-3 ids
  pub multi_delete: bool,
}

/// Generates a history that is valid in its own context (ops refer to live
/// handles). `next_ver` makes every added version unique.
pub fn gen_ops(rng: &mut Rng, cfg: &Cfg, p: &GenParams) -> Vec<Op> {
  let mut ops = Vec::new();
  let mut live: Vec<usize> = Vec::new();
  let mut next_h = 0usize;
  let mut next_ver = 1u64;
  let mut readers: Vec<usize> = Vec::new();
  let mut next_r = 0usize;
  let ids: Vec<String> = id_names(cfg);
  while ops.len() < p.len {
    if p.purge && !live.is_empty() && rng.chance(1, 12) {
      let h = *rng.pick(&live);
      for id in ids.iter().take(8) {
        ops.push(Op::Delete { h, id: id.clone() });
      }
      ops.push(Op::Commit { h });
      ops.push(Op::Compact);
      // with overlapping handles: another handle refills the emptied index
      // with a few commits, then the first one - idle meanwhile - touches
      // what was added
      if p.overlap && rng.chance(1, 2) {
        let other = live.iter().copied().find(|x| *x != h).or_else(|| {
          if live.len() < p.max_handles.max(2) {
            let n = next_h;
            next_h += 1;
            live.push(n);
            ops.push(Op::NewWriter { h: n });
            Some(n)
          } else {
            None
          }
        });
        if let Some(b) = other {
          let k = 1 + rng.usize(3);
          for i in 0..k {
            ops.push(Op::Add {
              h: b,
              id: ids[i % ids.len()].clone(),
              ver: next_ver,
            });
            next_ver += 1;
            ops.push(Op::Commit { h: b });
          }
          if rng.chance(1, 2) {
            ops.push(Op::Add {
              h,
              id: ids[0].clone(),
              ver: next_ver,
            });
            next_ver += 1;
          } else {
            ops.push(Op::Delete { h, id: ids[0].clone() });
          }
          ops.push(Op::Commit { h });
        }
      }
      continue;
    }
    if p.overlap && live.len() >= 2 && rng.chance(1, 15) {
      // two handles touch the same id one after the other (the second one's view
      // is stale), then a fresh handle works on its neighbour
      let b = live[rng.usize(live.len())];
      let a = *live.iter().find(|x| **x != b).unwrap();
      let x = ids[0].clone();
      let y = ids[1 % ids.len()].clone();
      ops.push(Op::Delete { h: b, id: x.clone() });
      ops.push(Op::Commit { h: b });
      if rng.chance(1, 2) {
        ops.push(Op::Delete { h: a, id: x.clone() });
      } else {
        ops.push(Op::Add { h: a, id: x.clone(), ver: next_ver });
        next_ver += 1;
      }
      ops.push(Op::Commit { h: a });
      if rng.chance(1, 2) {
        live.clear();
        readers.clear();
        ops.push(Op::Reopen);
        let n = next_h;
        next_h += 1;
        live.push(n);
        ops.push(Op::NewWriter { h: n });
      }
      let c = *rng.pick(&live);
      if rng.chance(1, 2) {
        ops.push(Op::Add { h: c, id: y, ver: next_ver });
        next_ver += 1;
      } else {
        ops.push(Op::Delete { h: c, id: y });
      }
      ops.push(Op::Commit { h: c });
      continue;
    }
    let mut w = p.weights;
    if live.is_empty() {
      w[1] = 0;
      w[2] = 0;
      w[3] = 0;
      w[4] = 0;
      w[5] = 0;
      w[0] = w[0].max(4) * 8;
    }
    if live.len() >= p.max_handles || (!p.overlap && !live.is_empty()) {
      w[0] = 0;
    }
    if readers.is_empty() {
      w[10] = 0;
    }
    if readers.len() >= 3 {
      w[9] = 0;
    }
    match rng.weighted(&w) {
      0 => {
        let h = next_h;
        next_h += 1;
        live.push(h);
        ops.push(Op::NewWriter { h });
      }
      1 => {
        let h = *rng.pick(&live);
        let id = rng.pick(&ids).clone();
        let mut ver = next_ver;
        next_ver += 1;
        if p.big_every > 0 && rng.chance(1, p.big_every as u64) {
          if rng.chance(1, 30) {
            // a giant document (over 1 MiB): versions = 70 mod 97 in the long range
            ver = BIG_VERSIONS + 70 + 97 * ver;
          } else {
            ver += BIG_VERSIONS;
          }
        }
        let wrap = p.savepoints && !p.overlap && rng.chance(1, 6);
        if wrap {
          ops.push(Op::Savepoint { h });
        }
        ops.push(Op::Add { h, id, ver });
        if wrap {
          for _ in 0..rng.usize(3) {
            if rng.chance(2, 3) {
              ops.push(Op::Add {
                h,
                id: rng.pick(&ids).clone(),
                ver: next_ver,
              });
              next_ver += 1;
            } else {
              ops.push(Op::Delete { h, id: rng.pick(&ids).clone() });
            }
          }
          if rng.chance(1, 8) {
            // a mark that a commit or rollback has overtaken: rollback_to must
            // then change nothing
            ops.push(if rng.chance(1, 2) { Op::Commit { h } } else { Op::Rollback { h } });
            ops.push(Op::RollbackTo { h });
          } else if rng.chance(3, 4) {
            ops.push(Op::RollbackTo { h });
          }
        }
        if p.burst > 0 && rng.chance(1, 4) {
          let start = rng.usize(ids.len());
          let n = 1 + rng.usize(p.burst as usize);
          for k in 0..n {
            let id = ids[(start + k) % ids.len()].clone();
            ops.push(Op::Add { h, id, ver: next_ver });
            next_ver += 1;
          }
        }
      }
      2 => {
        let h = *rng.pick(&live);
        let id = rng.pick(&ids).clone();
        if p.multi_delete && rng.chance(1, 4) {
          let mut v = vec![id];
          for _ in 0..1 + rng.usize(2) {
            v.push(rng.pick(&ids).clone());
          }
          ops.push(Op::DeleteMany { h, ids: v });
        } else {
          ops.push(Op::Delete { h, id });
        }
      }
      3 => ops.push(Op::Commit { h: *rng.pick(&live) }),
      4 => ops.push(Op::Rollback { h: *rng.pick(&live) }),
      5 => {
        let i = rng.usize(live.len());
        let h = live.remove(i);
        ops.push(Op::DropWriter { h });
      }
      6 => ops.push(Op::Compact),
      7 => {
        live.clear();
        readers.clear();
        ops.push(Op::Reopen);
      }
      8 => {
        live.clear();
        readers.clear();
        ops.push(Op::Relocate {
          original: rng.below(4) as u8,
          naming: rng.below(6) as u8,
        });
      }
      9 => {
        let r = next_r;
        next_r += 1;
        readers.push(r);
        ops.push(Op::OpenReader { r });
      }
      _ => ops.push(Op::CheckReader { r: *rng.pick(&readers) }),
    }
  }
  ops
}

// ---------------------------------------------------------------------------
// session: the real system under test

#[derive(Clone, Debug, PartialEq)]
pub enum Outcome {
  Ok,
  OkIndex(u32),
  Err(String),
  Panic(String),
  /// op not applicable in the current state (e.g. handle gone after minimisation)
  Skipped,
}

impl Outcome {
  pub fn is_ok(&self) -> bool {
    matches!(self, Outcome::Ok | Outcome::OkIndex(_))
  }
  pub fn short(&self) -> String {
    match self {
      Outcome::Ok => "ok".into(),
      Outcome::OkIndex(i) => format!("ok({})", i),
      Outcome::Err(e) => format!("err({})", e),
      Outcome::Panic(e) => format!("PANIC({})", e),
      Outcome::Skipped => "skipped".into(),
    }
  }
}

pub fn panic_msg(p: Box<dyn std::any::Any + Send>) -> String {
  if let Some(s) = p.downcast_ref::<&str>() {
    s.to_string()
  } else if let Some(s) = p.downcast_ref::<String>() {
    s.clone()
  } else {
    "non-string panic".into()
  }
}

pub fn guarded<T>(f: impl FnOnce() -> anyhow::Result<T>) -> Result<T, Outcome> {
  match catch_unwind(AssertUnwindSafe(f)) {
    Ok(Ok(v)) => Ok(v),
    Ok(Err(e)) => Err(Outcome::Err(format!("{:#}", e))),
    Err(p) => Err(Outcome::Panic(panic_msg(p))),
  }
}

pub struct Session {
  pub cfg: Cfg,
  pub root: PathBuf,
  pub fs: Option<SimFs>,
  pub mem: Option<Arc<InMemoryStorage>>,
  pub custom: Option<Arc<dyn Storage>>,
  pub index: Option<Index>,
  pub writers: BTreeMap<usize, IndexWriter>,
  pub readers: BTreeMap<usize, IndexReader>,
  pub marks: BTreeMap<usize, searchlite_core::api::writer::WriterSavepoint>,
  pub reopens: std::cell::Cell<u64>,
}

pub fn index_options(cfg: &Cfg, root: &Path, create: bool) -> IndexOptions {
  IndexOptions {
    path: root.to_path_buf(),
    create_if_missing: create,
    enable_positions: cfg.positions,
    bm25_k1: 1.2,
    bm25_b: 0.75,
    storage: match cfg.storage {
      StorageKind::Fs => StorageType::Filesystem,
      StorageKind::Mem => StorageType::InMemory,
    },
    #[cfg(feature = "vectors")]
    vector_defaults: None,
  }
}

pub fn match_all_request(limit: usize) -> SearchRequest {
  serde_json::from_value(json!({
    "query": {"type": "match_all"},
    "limit": limit,
    "return_stored": true
  }))
  .expect("match_all request")
}

#[derive(Clone, Debug, PartialEq)]
pub struct Observed {
  /// (id, stored fields) per hit, in hit order
  pub hits: Vec<(String, Value)>,
}

impl Observed {
  pub fn to_contents(&self) -> Result<Contents, String> {
    let mut out = Contents::new();
    for (id, stored) in &self.hits {
      let ver = stored.get("n").and_then(|n| n.as_u64()).ok_or_else(|| format!("hit {} lacks stored version field: {}", id, stored))?;
      let sid = stored.get("_id").and_then(|s| s.as_str()).unwrap_or("");
      if sid != id {
        return Err(format!("hit doc_id {} but stored _id {}", id, sid));
      }
      if out
        .insert(
          id.clone(),
          Version {
            ver,
            stored: stored.clone(),
          },
        )
        .is_some()
      {
        return Err(format!("duplicate id {} in results", id));
      }
    }
    Ok(out)
  }
  pub fn short(&self) -> Vec<String> {
    self
      .hits
      .iter()
      .map(|(id, s)| format!("{}@{}", id, s.get("n").map(|n| n.to_string()).unwrap_or_default()))
      .collect()
  }
}

pub fn search_all(reader: &IndexReader) -> anyhow::Result<Observed> {
  let res = reader.search(&match_all_request(10_000))?;
  let mut hits = Vec::new();
  for h in res.hits {
    hits.push((h.doc_id.clone(), h.fields.clone().unwrap_or(Value::Null)));
  }
  Ok(Observed { hits })
}

/// Within one reader, the postings (term queries) and the fast fields
/// (keyword / range filters) must agree with the stored fields of the live
/// documents. Run on a content-determined third of the observations.
pub fn cross_check(reader: &IndexReader, obs: &Observed) -> anyhow::Result<()> {
  let key: u64 = obs.hits.iter().map(|(_, s)| s.get("n").and_then(|n| n.as_u64()).unwrap_or(0)).sum();
  if obs.hits.is_empty() || key % 3 != 0 {
    return Ok(());
  }
  let ids_where = |pred: &dyn Fn(&Value) -> bool| -> Vec<String> {
    let mut v: Vec<String> = obs.hits.iter().filter(|(_, s)| pred(s)).map(|(id, _)| id.clone()).collect();
    v.sort();
    v
  };
  let run = |req: Value| -> anyhow::Result<Vec<String>> {
    let r: SearchRequest = serde_json::from_value(req)?;
    let mut v: Vec<String> = reader.search(&r)?.hits.into_iter().map(|h| h.doc_id).collect();
    v.sort();
    Ok(v)
  };
  let word = WORDS[(key / 3 % 6) as usize];
  let want = ids_where(&|s| s.get("body").and_then(|b| b.as_str()).map(|b| b.split(' ').any(|t| t == word)).unwrap_or(false));
  let got = run(json!({"query": {"type": "term", "field": "body", "value": word}, "limit": 10000, "return_stored": false}))?;
  if want != got {
    anyhow::bail!("term query body:{} returns {:?} but the stored fields of the same reader say {:?}", word, got, want);
  }
  let tag = TAGS[(key / 18 % 4) as usize];
  let want = ids_where(&|s| match s.get("tag") {
    Some(Value::String(t)) => t == tag,
    Some(Value::Array(a)) => a.iter().any(|t| t.as_str() == Some(tag)),
    _ => false,
  });
  let got = run(json!({"query": {"type": "match_all"}, "filter": {"KeywordEq": {"field": "tag", "value": tag}}, "limit": 10000, "return_stored": false}))?;
  if want != got {
    anyhow::bail!("filter tag={} returns {:?} but the stored fields of the same reader say {:?}", tag, got, want);
  }
  let pivot = (key / obs.hits.len() as u64) as i64;
  let want = ids_where(&|s| s.get("n").and_then(|n| n.as_i64()).map(|n| n <= pivot).unwrap_or(false));
  let got = run(json!({"query": {"type": "match_all"}, "filter": {"I64Range": {"field": "n", "min": 0, "max": pivot}}, "limit": 10000, "return_stored": false}))?;
  if want != got {
    anyhow::bail!("filter n<={} returns {:?} but the stored fields of the same reader say {:?}", pivot, got, want);
  }
  Ok(())
}

pub fn observe_index(index: &Index) -> Result<Observed, Outcome> {
  guarded(|| {
    let reader = index.reader()?;
    let obs = search_all(&reader)?;
    cross_check(&reader, &obs)?;
    Ok(obs)
  })
}

impl Session {
  /// Create a fresh index. For `Fs` the caller has mounted `fs` at a prefix of
  /// `root` already.
  pub fn create(cfg: &Cfg, root: &Path, fs: Option<SimFs>) -> Result<Session, Outcome> {
    let mut s = Session {
      cfg: cfg.clone(),
      root: root.to_path_buf(),
      fs,
      mem: None,
      custom: None,
      index: None,
      writers: BTreeMap::new(),
      readers: BTreeMap::new(),
      marks: BTreeMap::new(),
      reopens: std::cell::Cell::new(0),
    };
    let sch = schema(cfg.profile);
    let opts = index_options(cfg, root, true);
    let index = match cfg.storage {
      StorageKind::Fs => guarded(|| Index::create(root, sch, opts))?,
      StorageKind::Mem => {
        let mem = Arc::new(InMemoryStorage::new(root.to_path_buf()));
        s.mem = Some(mem.clone());
        guarded(|| Index::create_with_storage(root, sch, opts, mem))?
      }
    };
    s.index = Some(index);
    Ok(s)
  }

  pub fn create_with_storage(cfg: &Cfg, root: &Path, storage: Arc<dyn Storage>) -> Result<Session, Outcome> {
    let sch = schema(cfg.profile);
    let opts = index_options(cfg, root, true);
    let st = storage.clone();
    let index = guarded(|| Index::create_with_storage(root, sch, opts, st))?;
    Ok(Session {
      cfg: cfg.clone(),
      root: root.to_path_buf(),
      fs: None,
      mem: None,
      custom: Some(storage),
      index: Some(index),
      writers: BTreeMap::new(),
      readers: BTreeMap::new(),
      marks: BTreeMap::new(),
      reopens: std::cell::Cell::new(0),
    })
  }

  /// Open an existing index (after a crash / relocation / corruption).
  pub fn open(cfg: &Cfg, root: &Path, fs: Option<SimFs>) -> Result<Session, Outcome> {
    Self::open_with(cfg, root, fs, false)
  }

  /// `create_if_missing` as an application that "opens or creates" would pass it.
  pub fn open_with(cfg: &Cfg, root: &Path, fs: Option<SimFs>, create_if_missing: bool) -> Result<Session, Outcome> {
    let opts = index_options(cfg, root, create_if_missing);
    let index = guarded(|| Index::open(opts))?;
    Ok(Session {
      cfg: cfg.clone(),
      root: root.to_path_buf(),
      fs,
      mem: None,
      custom: None,
      index: Some(index),
      writers: BTreeMap::new(),
      readers: BTreeMap::new(),
      marks: BTreeMap::new(),
      reopens: std::cell::Cell::new(0),
    })
  }

  /// Open an existing index at `root` through a caller-supplied storage object
  /// (`Index::open_with_storage`), e.g. one `FsStorage` that the application
  /// created once and keeps using for every directory.
  pub fn open_custom(cfg: &Cfg, root: &Path, fs: Option<SimFs>, storage: Arc<dyn Storage>) -> Result<Session, Outcome> {
    let opts = index_options(cfg, root, false);
    let st = storage.clone();
    let index = guarded(|| Index::open_with_storage(opts, st))?;
    Ok(Session {
      cfg: cfg.clone(),
      root: root.to_path_buf(),
      fs,
      mem: None,
      custom: Some(storage),
      index: Some(index),
      writers: BTreeMap::new(),
      readers: BTreeMap::new(),
      marks: BTreeMap::new(),
      reopens: std::cell::Cell::new(0),
    })
  }

  pub fn open_fresh_index(&self) -> Result<Index, Outcome> {
    // every other reopen passes create_if_missing, as an application that
    // "opens or creates" would (the index exists: it must simply be opened)
    let n = self.reopens.get();
    self.reopens.set(n + 1);
    let opts = index_options(&self.cfg, &self.root, n % 2 == 1);
    if let Some(c) = &self.custom {
      let c = c.clone();
      return guarded(|| Index::open_with_storage(opts, c));
    }
    match (&self.cfg.storage, &self.mem) {
      (StorageKind::Mem, Some(mem)) => {
        let mem = mem.clone();
        guarded(|| Index::open_with_storage(opts, mem))
      }
      _ => guarded(|| Index::open(opts)),
    }
  }

  pub fn reopen(&mut self) -> Outcome {
    self.writers.clear();
    self.readers.clear();
    self.marks.clear();
    self.index = None;
    match self.open_fresh_index() {
      Ok(i) => {
        self.index = Some(i);
        Outcome::Ok
      }
      Err(o) => o,
    }
  }

  pub fn observe(&self) -> Result<Observed, Outcome> {
    match &self.index {
      Some(i) => observe_index(i),
      None => Err(Outcome::Err("no index".into())),
    }
  }

  pub fn applicable(&self, op: &Op) -> bool {
    match op {
      Op::NewWriter { h } => !self.writers.contains_key(h) && self.index.is_some(),
      Op::Add { h, .. } | Op::Delete { h, .. } | Op::DeleteMany { h, .. } | Op::Commit { h } | Op::Rollback { h } | Op::DropWriter { h } => {
        self.writers.contains_key(h)
      }
      Op::Savepoint { h } => self.writers.contains_key(h),
      Op::RollbackTo { h } => self.writers.contains_key(h) && self.marks.contains_key(h),
      Op::Compact | Op::Reopen => self.index.is_some(),
      Op::Relocate { .. } => false,
      Op::OpenReader { r } => self.index.is_some() && !self.readers.contains_key(r),
      Op::CheckReader { r } => self.readers.contains_key(r),
      Op::Faulty { .. } => false,
    }
  }

  /// Execute one operation against the real code. Relocate is handled by the
  /// engine (it needs the simulated disk).
  pub fn exec(&mut self, op: &Op) -> Outcome {
    if !self.applicable(op) {
      return Outcome::Skipped;
    }
    match op {
      Op::NewWriter { h } => {
        let idx = self.index.as_ref().unwrap();
        match guarded(|| idx.writer()) {
          Ok(w) => {
            self.writers.insert(*h, w);
            Outcome::Ok
          }
          Err(o) => o,
        }
      }
      Op::Add { h, id, ver } => {
        let doc = make_doc(self.cfg.profile, id, *ver);
        let w = self.writers.get_mut(h).unwrap();
        match guarded(|| w.add_document(&doc)) {
          Ok(i) => Outcome::OkIndex(i),
          Err(o) => o,
        }
      }
      Op::Delete { h, id } => {
        let w = self.writers.get_mut(h).unwrap();
        match guarded(|| w.delete_document(id)) {
          Ok(()) => Outcome::Ok,
          Err(o) => o,
        }
      }
      Op::DeleteMany { h, ids } => {
        let w = self.writers.get_mut(h).unwrap();
        match guarded(|| w.delete_documents(ids)) {
          Ok(()) => Outcome::Ok,
          Err(o) => o,
        }
      }
      Op::Commit { h } => {
        let w = self.writers.get_mut(h).unwrap();
        match guarded(|| w.commit()) {
          Ok(()) => Outcome::Ok,
          Err(o) => o,
        }
      }
      Op::Rollback { h } => {
        let w = self.writers.get_mut(h).unwrap();
        match guarded(|| w.rollback()) {
          Ok(()) => Outcome::Ok,
          Err(o) => o,
        }
      }
      Op::Savepoint { h } => {
        let w = self.writers.get_mut(h).unwrap();
        match guarded(|| w.savepoint()) {
          Ok(m) => {
            self.marks.insert(*h, m);
            Outcome::Ok
          }
          Err(o) => o,
        }
      }
      Op::RollbackTo { h } => {
        let w = self.writers.get_mut(h).unwrap();
        let m = self.marks.remove(h).unwrap();
        match guarded(|| w.rollback_to(&m)) {
          Ok(()) => Outcome::Ok,
          Err(o) => o,
        }
      }
      Op::DropWriter { h } => {
        self.marks.remove(h);
        let w = self.writers.remove(h).unwrap();
        match catch_unwind(AssertUnwindSafe(move || drop(w))) {
          Ok(()) => Outcome::Ok,
          Err(p) => Outcome::Panic(panic_msg(p)),
        }
      }
      Op::Compact => {
        let idx = self.index.as_ref().unwrap();
        match guarded(|| idx.compact()) {
          Ok(()) => Outcome::Ok,
          Err(o) => o,
        }
      }
      Op::Reopen => self.reopen(),
      Op::Relocate { .. } => Outcome::Skipped,
      Op::OpenReader { r } => {
        let idx = self.index.as_ref().unwrap();
        match guarded(|| idx.reader()) {
          Ok(rd) => {
            self.readers.insert(*r, rd);
            Outcome::Ok
          }
          Err(o) => o,
        }
      }
      Op::CheckReader { .. } => Outcome::Ok,
      Op::Faulty { .. } => Outcome::Skipped,
    }
  }
}

pub fn ids_in(ops: &[Op]) -> BTreeSet<String> {
  ops
    .iter()
    .filter_map(|o| match o {
      Op::Add { id, .. } | Op::Delete { id, .. } => Some(id.clone()),
      Op::DeleteMany { ids, .. } => ids.first().cloned(),
      _ => None,
    })
    .collect()
}
