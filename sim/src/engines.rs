//! Adaptors from the concrete engines to the generic driver.

use std::path::Path;

use serde_json::{json, Value};

use crate::cli::Engine;
use crate::e1_model::{self, Flavour, ModelCase};
use crate::kit::{Stats, Violation};
use crate::rng::Rng;

pub fn e1_real_vs_stub() -> Value {
  json!({
    "real": "all of searchlite-core: FsStorage (tmp file, fsync, rename, dir fsync, unlink, O_APPEND), InMemoryStorage, WAL, segment writer/reader, manifest, compaction, IndexReader::search",
    "simulated": "the OS file system (SimFs behind the cfg(searchlite_verif) std::fs shim), segment ids, index uuid, committed_at clock, the calling application (generated workload)",
  })
}

pub struct ModelEngine {
  pub flavour: Flavour,
}

impl Engine for ModelEngine {
  type Case = ModelCase;
  fn name(&self) -> &'static str {
    "e1.model"
  }
  fn level(&self) -> &'static str {
    "exploration"
  }
  fn generate(&self, rng: &mut Rng, thorough: bool) -> ModelCase {
    e1_model::gen_case(rng, self.flavour, thorough)
  }
  fn execute(&self, case: &ModelCase, wroot: &Path, stats: &mut Stats) -> (Vec<Violation>, Vec<String>) {
    let r = e1_model::run_case(case, wroot, self.flavour, stats);
    stats.add("evaluations", 1);
    stats.add("steps", case.ops.len() as u64);
    (r.violations, r.trace)
  }
  fn shrink(&self, case: &ModelCase) -> Vec<ModelCase> {
    e1_model::shrink_candidates(case)
  }
  fn rule(&self) -> String {
    "seeded fault-free histories (swarm-configured op mix, 1-3 writer handles, kept readers, reopen, compaction, relocation) executed on the real core over SimFs or InMemoryStorage and on the reference model; a case is distinct by the hash of (ids, profile, storage, op-kind sequence); every case executes at least two API calls".into()
  }
  fn assumptions(&self) -> Vec<String> {
    vec![
      "the reference model of DESIGN §2.4 (shared O_APPEND log, per-handle queues) is the intended semantics".into(),
      "overlapping writer handles are only judged on FsStorage (InMemoryStorage::open_append is not an append)".into(),
      "hash-map iteration order inside the core only permutes JSON keys / columns (not seeded)".into(),
    ]
  }
  fn real_vs_stub(&self) -> Value {
    e1_real_vs_stub()
  }
  fn budget(&self, thorough: bool) -> (u64, f64) {
    if thorough {
      (5_000_000, 600.0)
    } else {
      (100_000, 40.0)
    }
  }
  fn probes(&self) -> Vec<&'static str> {
    match self.flavour {
      Flavour::C04 => vec!["op.commit", "op.rollback", "op.reopen", "op.compact", "probe.old_reader_checked", "probe.long_documents", "probe.large_id_space_runs", "probe.partial_rollbacks"],
      Flavour::C14 => vec!["probe.compaction_merged", "probe.compaction_refused", "probe.queries_compared", "probe.long_documents", "probe.large_id_space_runs"],
      Flavour::C28 => vec!["op.relocate", "probe.original_listing_checked", "probe.copy_opened_through_storage_of_original_root", "probe.original_handle_kept_open"],
    }
  }
}

pub struct CrashEngine {
  pub c02: bool,
}

impl Engine for CrashEngine {
  type Case = crate::e1_crash::CrashCase;
  fn name(&self) -> &'static str {
    "e1.crash"
  }
  fn level(&self) -> &'static str {
    "fault_enumeration"
  }
  fn generate(&self, rng: &mut Rng, thorough: bool) -> Self::Case {
    crate::e1_crash::gen_case(rng, self.c02, thorough)
  }
  fn execute(&self, case: &Self::Case, wroot: &Path, stats: &mut Stats) -> (Vec<Violation>, Vec<String>) {
    let r = crate::e1_crash::run_case(case, wroot, self.c02, stats);
    (r.violations, r.trace)
  }
  fn shrink(&self, case: &Self::Case) -> Vec<Self::Case> {
    crate::e1_crash::shrink_candidates(case)
  }
  fn pin(&self, case: &Self::Case, _target: &Violation, wroot: &Path) -> Self::Case {
    // a violation found by the sweep becomes an op-relative pinned crash of
    // the last session (no sweep), which shrinks well
    let mut st = Stats::default();
    let r = crate::e1_crash::run_case(case, wroot, self.c02, &mut st);
    let mut c = case.clone();
    if let (Some(spec), Some(v)) = (r.spec, r.violations.first()) {
      let mut cand = case.clone();
      let last = cand.sessions.len() - 1;
      let keep = (spec.op + 1).min(cand.sessions[last].ops.len());
      cand.sessions[last].ops.truncate(keep);
      cand.sessions[last].crash = Some(spec);
      cand.sweep = false;
      cand.pin = None;
      let mut st2 = Stats::default();
      let r2 = crate::e1_crash::run_case(&cand, wroot, self.c02, &mut st2);
      if r2.violations.iter().any(|x| x.class == v.class) {
        return cand;
      }
      if let Some(p) = r.pin {
        c.pin = Some(p);
      }
    }
    c
  }
  fn sample(&self, case: &Self::Case) -> Value {
    crate::e1_crash::sample_json(case)
  }
  fn shrink_match(&self, a: &Violation, b: &Violation) -> bool {
    a.class == b.class
  }
  fn rule(&self) -> String {
    "seeded histories on FsStorage+SimFs; every FS-primitive boundary of the last session x {only-durable, all-persisted, every single-deviation image, torn/zero-filled last write, PRNG-mixed} under journalled-FS model M1; earlier sessions end in pinned crashes whose image boots the next session; an evaluation is one (boundary, image) check; distinct = distinct image content hashes; sites = distinct <call in flight, last primitive> pairs".into()
  }
  fn assumptions(&self) -> Vec<String> {
    vec![
      "durability model M1: directory operations persist in order (journalled metadata); fsync(file) persists that inode's data and the journal up to its own last namespace operation; fsync(dir) persists the whole journal".into(),
      "per inode, un-synced data operations persist as a prefix; the next write may be torn at any byte or zero-filled".into(),
      "strict-POSIX reordering of un-synced directory entries is NOT assumed (exploration only, see DESIGN 2.3)".into(),
      "one live writer handle at a time in crash runs".into(),
    ]
  }
  fn real_vs_stub(&self) -> Value {
    e1_real_vs_stub()
  }
  fn budget(&self, thorough: bool) -> (u64, f64) {
    if thorough {
      (400_000, 900.0)
    } else {
      (100_000, 40.0)
    }
  }
  fn probes(&self) -> Vec<&'static str> {
    if self.c02 {
      vec!["fault.crash", "fault.crash_torn_log_tail", "probe.crash_with_queued_ops_on_disk", "probe.crash_published_inflight_commit", "checks.recovery", "probe.long_documents", "probe.partial_rollbacks"]
    } else {
      vec!["fault.crash", "probe.crash_published_inflight_commit", "image.torn", "image.dev_journal_short", "probe.long_documents", "probe.large_id_space_runs", "probe.partial_rollbacks"]
    }
  }
}

pub struct FaultEngine;

impl Engine for FaultEngine {
  type Case = crate::e1_fault::FaultCase;
  fn name(&self) -> &'static str {
    "e1.fault"
  }
  fn level(&self) -> &'static str {
    "fault_enumeration"
  }
  fn generate(&self, rng: &mut Rng, thorough: bool) -> Self::Case {
    crate::e1_fault::gen_case(rng, thorough)
  }
  fn execute(&self, case: &Self::Case, wroot: &Path, stats: &mut Stats) -> (Vec<Violation>, Vec<String>) {
    let r = crate::e1_fault::run_case(case, wroot, stats);
    stats.add("steps", case.prefix.len() as u64 + 1);
    (r.violations, r.trace)
  }
  fn shrink(&self, case: &Self::Case) -> Vec<Self::Case> {
    crate::e1_fault::shrink_candidates(case)
  }
  fn pin(&self, case: &Self::Case, _target: &Violation, wroot: &Path) -> Self::Case {
    let mut st = Stats::default();
    let r = crate::e1_fault::run_case(case, wroot, &mut st);
    let mut c = case.clone();
    if let Some(p) = r.pin {
      c.pin = Some(p);
    }
    c
  }
  fn sample(&self, case: &Self::Case) -> Value {
    crate::e1_fault::sample_json(case)
  }
  fn rule(&self) -> String {
    "seeded fault-free prefix + one target call (add/delete/commit/rollback/compact) on FsStorage+SimFs; every fault-eligible FS primitive of the target (open, read, write, set_len, fsync, dir fsync, rename, unlink, mkdir) x {EIO before effect, EIO after effect, ENOSPC with partial write and sticky follow-up failures}; pairs: second fault at a later primitive of the faulted execution (error path included); an evaluation is one full re-execution under one fault plan; distinct = distinct (profile, prefix kinds, target) shapes, sites = distinct <target, fault kind@primitive> combinations that fired".into()
  }
  fn assumptions(&self) -> Vec<String> {
    vec![
      "a failing storage call fails cleanly (error returned; effect either absent or complete; ENOSPC writes apply a prefix)".into(),
      "faults stop when the target call returns; the retry runs on healthy storage".into(),
      "double faults are judged by the narrow oracle of the property (on-disk index opens, names no missing file, shows pre- or post-state)".into(),
    ]
  }
  fn real_vs_stub(&self) -> Value {
    e1_real_vs_stub()
  }
  fn budget(&self, thorough: bool) -> (u64, f64) {
    if thorough {
      (100_000, 900.0)
    } else {
      (100_000, 40.0)
    }
  }
  fn probes(&self) -> Vec<&'static str> {
    vec![
      "fault.eio_before",
      "fault.eio_after",
      "fault.enospc",
      "fault.enospc_followup_failures",
      "probe.commit_retried_after_fault",
      "probe.second_fault_in_error_path",
      "probe.queue_checked_via_restart",
    ]
  }
}

pub struct CorruptEngine;

impl Engine for CorruptEngine {
  type Case = crate::e1_corrupt::CorruptCase;
  fn name(&self) -> &'static str {
    "e1.corrupt"
  }
  fn level(&self) -> &'static str {
    "fault_enumeration"
  }
  fn generate(&self, rng: &mut Rng, thorough: bool) -> Self::Case {
    crate::e1_corrupt::gen_case(rng, thorough)
  }
  fn execute(&self, case: &Self::Case, wroot: &Path, stats: &mut Stats) -> (Vec<Violation>, Vec<String>) {
    let r = crate::e1_corrupt::run_case(case, wroot, stats);
    stats.add("steps", case.ops.len() as u64);
    (r.violations, r.trace)
  }
  fn shrink(&self, case: &Self::Case) -> Vec<Self::Case> {
    crate::e1_corrupt::shrink_candidates(case)
  }
  fn pin(&self, case: &Self::Case, target: &Violation, wroot: &Path) -> Self::Case {
    let mut st = Stats::default();
    let r = crate::e1_corrupt::run_case(case, wroot, &mut st);
    let mut c = case.clone();
    if let Some((_, m)) = r.pins.iter().find(|(v, _)| v.same_kind(target)) {
      c.pin = Some(m.clone());
    }
    c
  }
  fn sample(&self, case: &Self::Case) -> Value {
    crate::e1_corrupt::sample_json(case)
  }
  fn rule(&self) -> String {
    "seeded small indexes (1-3 segments, deletions, non-empty log) built on SimFs and closed; media faults between sessions: single-byte xor (masks 01 02 10 80 FF) at every offset and every truncation length of every file (thorough) or a PRNG sample per file (quick); an evaluation is one mutated image reopened and searched (match_all + probe battery; for wal.log: recovery + commit); distinct = distinct index shapes, sites = file classes hit".into()
  }
  fn assumptions(&self) -> Vec<String> {
    vec![
      "one media fault at a time".into(),
      "a changed byte that leaves every observable result equal (dead byte) is not a violation".into(),
    ]
  }
  fn real_vs_stub(&self) -> Value {
    e1_real_vs_stub()
  }
  fn budget(&self, thorough: bool) -> (u64, f64) {
    if thorough {
      (100_000, 900.0)
    } else {
      (100_000, 40.0)
    }
  }
  fn probes(&self) -> Vec<&'static str> {
    vec!["fault.bit_flip", "fault.truncate", "probe.corruption_detected", "probe.corruption_harmless", "probe.log_prefix_recovered"]
  }
}

pub struct SchedEngine {
  pub reader_heavy: bool,
}

impl Engine for SchedEngine {
  type Case = crate::e2::SchedCase;
  fn name(&self) -> &'static str {
    "e2.sched"
  }
  fn level(&self) -> &'static str {
    "exploration"
  }
  fn generate(&self, rng: &mut Rng, thorough: bool) -> Self::Case {
    crate::e2::gen_case(rng, self.reader_heavy, thorough)
  }
  fn execute(&self, case: &Self::Case, wroot: &Path, stats: &mut Stats) -> (Vec<Violation>, Vec<String>) {
    let r = crate::e2::run_case(case, wroot, stats);
    (r.violations, r.trace)
  }
  fn shrink(&self, case: &Self::Case) -> Vec<Self::Case> {
    crate::e2::shrink_candidates(case)
  }
  fn pin(&self, case: &Self::Case, _target: &Violation, wroot: &Path) -> Self::Case {
    // make the schedule explicit: the PRNG is not consulted on replay
    let mut st = Stats::default();
    let r = crate::e2::run_case(case, wroot, &mut st);
    let mut c = case.clone();
    c.schedule = Some(r.schedule);
    c
  }
  fn sample(&self, case: &Self::Case) -> Value {
    crate::e2::sample_json(case)
  }
  fn shrink_match(&self, a: &Violation, b: &Violation) -> bool {
    a.class == b.class
  }
  fn rule(&self) -> String {
    "seeded programs of 2-4 writer threads (own handles), optional compactor and reader threads over <=3 ids on FsStorage+SimFs; real OS threads under a baton scheduler with yield points at every lock acquire/release (verif::sync hooks), every FS primitive and every call boundary; policies: uniform random, sticky (7/8 keep running), PCT-style priorities; the recorded invoke/return history is checked for linearizability against the reference model (Wing-Gong search); distinct = distinct executed schedules (hash of the thread-id sequence)".into()
  }
  fn assumptions(&self) -> Vec<String> {
    vec![
      "threads only interact through the two index locks and the file system (both are yield points); code between yield points runs atomically".into(),
      "the reference model (shared append log, per-handle queues) defines the legal serial behaviours".into(),
      "unlinked files stay readable through open handles (POSIX)".into(),
    ]
  }
  fn real_vs_stub(&self) -> Value {
    json!({
      "real": "all of searchlite-core incl. FsStorage, real OS threads, the real parking_lot locks (taken only when the scheduler's lock table says they are free)",
      "simulated": "thread scheduling (baton scheduler), the OS file system (SimFs), segment ids / uuid / clock",
    })
  }
  fn budget(&self, thorough: bool) -> (u64, f64) {
    if thorough {
      (5_000_000, 900.0)
    } else {
      (200_000, 40.0)
    }
  }
  fn probes(&self) -> Vec<&'static str> {
    if self.reader_heavy {
      vec!["probe.context_switches", "probe.lock_waits", "probe.reader_histories_checked", "probe.reader_with_concurrent_compaction", "probe.in_memory_storage_runs"]
    } else {
      vec!["probe.context_switches", "probe.lock_waits", "probe.linearization_states"]
    }
  }
}
