//! Simulated browser host for searchlite-wasm's `wasm.rs` compiled natively:
//! a single-threaded task queue (the microtask queue `spawn_local` feeds) and
//! an IndexedDB whose read-write transactions complete one at a time, in
//! creation order, when the simulator says so.

use std::cell::RefCell;
use std::collections::{BTreeMap, HashMap, VecDeque};
use std::future::Future;
use std::path::{Path, PathBuf};
use std::pin::Pin;
use std::rc::Rc;
use std::sync::{Arc, Mutex};
use std::task::{Context, Poll, Wake, Waker};

use anyhow::{anyhow, Result};

#[derive(Clone, Debug)]
pub enum TxOp {
  Put { key: String, data: Vec<u8> },
  Delete { key: String },
}

#[derive(Clone, Debug)]
pub struct Tx {
  pub id: u64,
  pub db: String,
  pub op: TxOp,
}

type Task = Pin<Box<dyn Future<Output = ()>>>;

#[derive(Default)]
pub struct World {
  /// durable IndexedDB contents: db -> key -> bytes
  pub store: BTreeMap<String, BTreeMap<String, Vec<u8>>>,
  /// created, not yet completed read-write transactions, in creation order
  pub txs: VecDeque<Tx>,
  done: HashMap<u64, Result<(), String>>,
  wakers: HashMap<u64, Waker>,
  next_tx: u64,
  tasks: Vec<Option<Task>>,
  runq: Arc<Mutex<VecDeque<usize>>>,
  pub errors: Vec<String>,
  pub polls: u64,
  pub tx_created: u64,
  pub tx_committed: u64,
  pub puts_by_key: BTreeMap<String, u64>,
  pub closed: bool,
}

thread_local! {
  static WORLD: RefCell<Option<Rc<RefCell<World>>>> = const { RefCell::new(None) };
}

pub fn install(world: Rc<RefCell<World>>) {
  WORLD.with(|w| *w.borrow_mut() = Some(world));
}

pub fn uninstall() {
  WORLD.with(|w| *w.borrow_mut() = None);
}

fn world() -> Rc<RefCell<World>> {
  WORLD.with(|w| w.borrow().clone()).expect("simulated browser host installed")
}

struct TaskWaker {
  id: usize,
  runq: Arc<Mutex<VecDeque<usize>>>,
}

impl Wake for TaskWaker {
  fn wake(self: Arc<Self>) {
    let mut q = self.runq.lock().unwrap();
    if !q.contains(&self.id) {
      q.push_back(self.id);
    }
  }
}

/// The seam for `wasm_bindgen_futures::spawn_local`: tasks run later, in
/// FIFO order.
pub fn spawn_local<F>(future: F)
where
  F: Future<Output = ()> + 'static,
{
  let w = world();
  let mut w = w.borrow_mut();
  if w.closed {
    return;
  }
  let id = w.tasks.len();
  w.tasks.push(Some(Box::pin(future)));
  w.runq.lock().unwrap().push_back(id);
}

pub fn record_error(msg: String) {
  let w = world();
  w.borrow_mut().errors.push(msg);
}

struct TxFuture {
  id: u64,
}

impl Future for TxFuture {
  type Output = Result<()>;
  fn poll(self: Pin<&mut Self>, cx: &mut Context<'_>) -> Poll<Self::Output> {
    let w = world();
    let mut w = w.borrow_mut();
    if let Some(r) = w.done.remove(&self.id) {
      return Poll::Ready(r.map_err(|e| anyhow!(e)));
    }
    w.wakers.insert(self.id, cx.waker().clone());
    Poll::Pending
  }
}

fn create_tx(db: &str, op: TxOp) -> u64 {
  let w = world();
  let mut w = w.borrow_mut();
  let id = w.next_tx;
  w.next_tx += 1;
  w.tx_created += 1;
  if let TxOp::Put { key, .. } = &op {
    *w.puts_by_key.entry(key.clone()).or_insert(0) += 1;
  }
  w.txs.push_back(Tx { id, db: db.to_string(), op });
  id
}

pub async fn load_snapshot(db_name: &str) -> Result<HashMap<PathBuf, Vec<u8>>> {
  let w = world();
  let w = w.borrow();
  let mut out = HashMap::new();
  if let Some(files) = w.store.get(db_name) {
    for (k, v) in files {
      out.insert(PathBuf::from(k), v.clone());
    }
  }
  Ok(out)
}

pub async fn persist_file(db_name: &str, path: &Path, data: Vec<u8>) -> Result<()> {
  let id = create_tx(
    db_name,
    TxOp::Put {
      key: path.to_string_lossy().to_string(),
      data,
    },
  );
  TxFuture { id }.await
}

pub async fn delete_file(db_name: &str, path: &Path) -> Result<()> {
  let id = create_tx(
    db_name,
    TxOp::Delete {
      key: path.to_string_lossy().to_string(),
    },
  );
  TxFuture { id }.await
}

// ---------------------------------------------------------------------------
// what the simulator drives

/// Poll the task at the head of the run queue. False when the queue is empty.
pub fn poll_one() -> bool {
  let w = world();
  let (id, mut task, runq) = {
    let mut wb = w.borrow_mut();
    let next = wb.runq.lock().unwrap().pop_front();
    let Some(id) = next else { return false };
    let Some(task) = wb.tasks[id].take() else { return true };
    wb.polls += 1;
    (id, task, wb.runq.clone())
  };
  let waker = Waker::from(Arc::new(TaskWaker { id, runq }));
  let mut cx = Context::from_waker(&waker);
  match task.as_mut().poll(&mut cx) {
    Poll::Ready(()) => {}
    Poll::Pending => {
      w.borrow_mut().tasks[id] = Some(task);
    }
  }
  true
}

pub fn drain() {
  while poll_one() {}
}

pub fn runnable() -> usize {
  let w = world();
  let w = w.borrow();
  let n = w.runq.lock().unwrap().len();
  n
}

/// Complete the oldest open transaction: commit it (apply + success event) or
/// abort it (error event).
pub fn complete_head(commit: bool) -> bool {
  let w = world();
  let mut w = w.borrow_mut();
  let Some(tx) = w.txs.pop_front() else { return false };
  if commit {
    let files = w.store.entry(tx.db.clone()).or_default();
    match tx.op {
      TxOp::Put { key, data } => {
        files.insert(key, data);
      }
      TxOp::Delete { key } => {
        files.remove(&key);
      }
    }
    w.tx_committed += 1;
    w.done.insert(tx.id, Ok(()));
  } else {
    w.done.insert(tx.id, Err("transaction aborted".into()));
  }
  if let Some(wk) = w.wakers.remove(&tx.id) {
    drop(w);
    wk.wake();
  }
  true
}

/// Page closed: tasks and open transactions vanish; only `store` survives.
pub fn close_page(commit_head: bool) -> BTreeMap<String, BTreeMap<String, Vec<u8>>> {
  let w = world();
  if commit_head {
    // the transaction in flight had been sent to the backend: it may still commit
    let mut wb = w.borrow_mut();
    if let Some(tx) = wb.txs.pop_front() {
      let files = wb.store.entry(tx.db.clone()).or_default();
      match tx.op {
        TxOp::Put { key, data } => {
          files.insert(key, data);
        }
        TxOp::Delete { key } => {
          files.remove(&key);
        }
      }
    }
  }
  let mut wb = w.borrow_mut();
  wb.closed = true;
  wb.txs.clear();
  wb.wakers.clear();
  wb.runq.lock().unwrap().clear();
  // dropping the tasks drops every future of the page (and the index with them)
  let tasks = std::mem::take(&mut wb.tasks);
  let store = wb.store.clone();
  drop(wb);
  drop(tasks);
  store
}
