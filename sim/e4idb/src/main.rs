//! E4 `idb`: searchlite-wasm's persistence layer (`wasm.rs`, compiled natively
//! with cfg(searchlite_verif) twins for the five browser-touching functions)
//! on a simulated browser event loop + IndexedDB (C27).

#[path = "/repo/searchlite-wasm/src/wasm.rs"]
#[allow(dead_code, unused_imports, clippy::all)]
mod wasm;
mod verif_idb;

use std::cell::RefCell;
use std::collections::{BTreeMap, BTreeSet};
use std::panic::{catch_unwind, AssertUnwindSafe};
use std::path::Path;
use std::rc::Rc;

use searchlite_core::api::types::Document;
use serde::{Deserialize, Serialize};
use serde_json::{json, Value};

use sim::cli::{drive, parse_args, Engine};
use sim::kit::{Stats, Violation};
use sim::rng::{hash_bytes, Rng};
use sim::work::{match_all_request, schema, Profile};

use verif_idb::World;

const DB: &str = "simdb";

#[derive(Clone, Debug, Serialize, Deserialize, PartialEq)]
#[serde(rename_all = "snake_case")]
pub enum PageStep {
  /// add `n` new documents (one writer per call, as the JS binding does);
  /// `blank`: documents without any indexable token (zero-length postings file)
  Add {
    n: u8,
    #[serde(default)]
    blank: bool,
  },
  /// call commit(); with `wait` the page awaits the promise before its next step
  Commit { wait: bool },
  /// await every commit promise created so far
  AwaitAll,
}

#[derive(Clone, Debug, Serialize, Deserialize, PartialEq)]
pub struct IdbCase {
  pub steps: Vec<PageStep>,
  /// macrotask choices: 0 = page step, 1 = complete the oldest transaction (cycled;
  /// an impossible choice falls back to the other)
  pub choices: Vec<u8>,
  /// close the page before this macrotask (u32::MAX: only at quiescence)
  pub close_at: u32,
  /// the transaction in flight at the close still commits
  pub commit_inflight: bool,
  /// exploration only: page steps may also run between two task polls
  #[serde(default)]
  pub loose: bool,
}

fn gen_case(rng: &mut Rng, thorough: bool) -> IdbCase {
  let ncommits = 1 + rng.usize(if thorough { 5 } else { 4 });
  let mut steps = Vec::new();
  let await_style = rng.below(3); // 0 always await, 1 never, 2 mixed
  for _ in 0..ncommits {
    // now and then a commit with nothing new to commit
    let adds = if rng.chance(1, 6) { 0 } else { 1 + rng.usize(2) };
    let blank = rng.chance(1, 5);
    for _ in 0..adds {
      steps.push(PageStep::Add { n: 1 + rng.below(3) as u8, blank });
    }
    let wait = match await_style {
      0 => true,
      1 => false,
      _ => rng.chance(1, 2),
    };
    steps.push(PageStep::Commit { wait });
    if !wait && rng.chance(1, 4) {
      steps.push(PageStep::AwaitAll);
    }
  }
  if rng.chance(1, 3) {
    steps.push(PageStep::Add { n: 1, blank: false }); // an uncommitted tail
  }
  let choices: Vec<u8> = (0..8 + rng.usize(24)).map(|_| if rng.chance(2, 5) { 0 } else { 1 }).collect();
  let close_at = if rng.chance(1, 10) { u32::MAX } else { rng.below(48) as u32 };
  IdbCase {
    steps,
    choices,
    close_at,
    commit_inflight: rng.chance(1, 2),
    loose: std::env::var("VERIF_IDB_LOOSE").is_ok(),
  }
}

type Contents = BTreeMap<String, u64>;

fn doc(id: &str, ver: u64) -> Document {
  sim::work::make_doc(Profile::Basic, id, ver)
}

#[derive(Default)]
struct PageState {
  searchlite: Option<Rc<wasm::Searchlite>>,
  init_failed: bool,
  /// documents added and not yet covered by a started commit
  queued: Vec<(String, u64)>,
  /// S_i: committed contents as of the i-th started commit (S_0 = empty)
  states: Vec<Contents>,
  started: usize,
  resolved: BTreeSet<usize>,
  failed: Vec<String>,
  created: usize,
}

fn read_contents(s: &wasm::Searchlite) -> Result<Contents, String> {
  let reader = s.verif_index().reader().map_err(|e| format!("reader() failed: {:#}", e))?;
  let res = reader.search(&match_all_request(10_000)).map_err(|e| format!("search failed: {:#}", e))?;
  let mut out = Contents::new();
  for h in res.hits {
    let ver = h.fields.as_ref().and_then(|f| f.get("n")).and_then(|n| n.as_u64()).ok_or_else(|| format!("hit {} without version", h.doc_id))?;
    if out.insert(h.doc_id.clone(), ver).is_some() {
      return Err(format!("duplicate id {}", h.doc_id));
    }
  }
  Ok(out)
}

fn short(c: &Contents) -> Vec<String> {
  c.keys().cloned().collect()
}

struct RunOut {
  violations: Vec<Violation>,
  trace: Vec<String>,
}

fn spawn_init(page: &Rc<RefCell<PageState>>) {
  let page = page.clone();
  let schema_json = serde_json::to_string(&schema(Profile::Basic)).unwrap();
  verif_idb::spawn_local(async move {
    match wasm::Searchlite::init(DB.to_string(), schema_json, None).await {
      Ok(s) => page.borrow_mut().searchlite = Some(Rc::new(s)),
      Err(_) => page.borrow_mut().init_failed = true,
    }
  });
}

fn spawn_commit(page: &Rc<RefCell<PageState>>, idx: usize) {
  let page2 = page.clone();
  let s = page.borrow().searchlite.clone().expect("initialised");
  verif_idb::spawn_local(async move {
    {
      // the promise body starts running: from here on the commit "has started"
      let mut p = page2.borrow_mut();
      let mut next = p.states.last().cloned().unwrap_or_default();
      for (id, ver) in p.queued.drain(..) {
        next.insert(id, ver);
      }
      p.states.push(next);
      p.started += 1;
    }
    match s.commit().await {
      Ok(()) => {
        page2.borrow_mut().resolved.insert(idx);
      }
      Err(_) => page2.borrow_mut().failed.push(format!("commit #{} rejected", idx)),
    }
  });
}

/// Run macrotasks until nothing can happen any more (used after a reload).
fn settle(stats: &mut Stats) {
  loop {
    verif_idb::drain();
    if !verif_idb::complete_head(true) {
      break;
    }
    stats.inc("steps");
  }
  verif_idb::drain();
}

fn run_case(case: &IdbCase, stats: &mut Stats) -> RunOut {
  let mut out = RunOut {
    violations: Vec::new(),
    trace: Vec::new(),
  };
  let ids = sim::work::SimIds::new();
  sim::work::install_ids(&ids);
  let world = Rc::new(RefCell::new(World::default()));
  verif_idb::install(world.clone());
  let page = Rc::new(RefCell::new(PageState::default()));
  page.borrow_mut().states.push(Contents::new());
  spawn_init(&page);
  let mut next_step = 0usize;
  let mut next_doc = 0u64;
  let mut commits_called = 0usize;
  let mut waiting_for: Option<Vec<usize>> = None;
  let mut macro_i = 0u32;
  let mut choice_i = 0usize;
  let mut closed_mid_run = false;
  let mut all_added: BTreeSet<String> = BTreeSet::new();
  loop {
    if case.loose {
      // exploration: at most one task poll between macrotasks
      verif_idb::poll_one();
    } else {
      verif_idb::drain();
    }
    // is the page blocked on a promise?
    if let Some(w) = &waiting_for {
      let p = page.borrow();
      if w.iter().all(|i| p.resolved.contains(i)) || !p.failed.is_empty() {
        drop(p);
        waiting_for = None;
      }
    }
    let ready = page.borrow().searchlite.is_some();
    let page_can = ready && waiting_for.is_none() && next_step < case.steps.len();
    let tx_can = !world.borrow().txs.is_empty();
    let tasks_left = case.loose && verif_idb::runnable() > 0;
    if macro_i >= case.close_at && (page_can || tx_can || tasks_left) {
      closed_mid_run = true;
      break;
    }
    if !page_can && !tx_can {
      if tasks_left {
        continue;
      }
      break; // quiescent
    }
    let want = case.choices.get(choice_i % case.choices.len().max(1)).copied().unwrap_or(1);
    choice_i += 1;
    let do_page = if want == 0 { page_can } else { !tx_can && page_can };
    macro_i += 1;
    stats.inc("steps");
    if do_page {
      let step = case.steps[next_step].clone();
      next_step += 1;
      match step {
        PageStep::Add { n, blank } => {
          let s = page.borrow().searchlite.clone().unwrap();
          let mut docs = Vec::new();
          for _ in 0..n {
            next_doc += 1;
            let id = format!("d{}", next_doc);
            let ver = if blank { sim::work::BLANK_VERSIONS + next_doc } else { next_doc * 8 };
            docs.push(doc(&id, ver));
            page.borrow_mut().queued.push((id.clone(), ver));
            all_added.insert(id);
          }
          out.trace.push(format!("page add {}", n));
          if s.verif_add(docs).is_err() {
            let errs = world.borrow().errors.clone();
            out.violations.push(Violation::new(&["C27"], "call-failed", "add", next_step, format!("add_documents failed: {:?}", errs)));
            break;
          }
        }
        PageStep::Commit { wait } => {
          commits_called += 1;
          let idx = commits_called;
          page.borrow_mut().created = idx;
          spawn_commit(&page, idx);
          out.trace.push(format!("page commit#{} wait={}", idx, wait));
          if wait {
            waiting_for = Some(vec![idx]);
          } else {
            stats.inc("probe.unawaited_commit");
          }
        }
        PageStep::AwaitAll => {
          waiting_for = Some((1..=commits_called).collect());
          out.trace.push("page await all".into());
        }
      }
    } else {
      let head = world.borrow().txs.front().map(|t| match &t.op {
        verif_idb::TxOp::Put { key, .. } => format!("put {}", key.rsplit('/').next().unwrap_or(key)),
        verif_idb::TxOp::Delete { key } => format!("delete {}", key),
      });
      verif_idb::complete_head(true);
      out.trace.push(format!("idb complete {}", head.unwrap_or_default()));
    }
  }
  if !page.borrow().failed.is_empty() {
    let f = page.borrow().failed.clone();
    let errs = world.borrow().errors.clone();
    out.violations.push(Violation::new(&["C27"], "call-failed", "commit", 0, format!("{:?}: {:?}", f, errs)));
  }
  if page.borrow().init_failed {
    let errs = world.borrow().errors.clone();
    out.violations.push(Violation::new(&["C27"], "call-failed", "init", 0, format!("first init failed: {:?}", errs)));
  }
  // ---- the page goes away
  let inflight = world.borrow().txs.len();
  if inflight > 0 {
    stats.inc(if case.commit_inflight { "fault.close_inflight_tx_commits" } else { "fault.close_inflight_tx_aborts" });
  }
  stats.inc(if closed_mid_run { "fault.page_close_mid_run" } else { "fault.page_close_at_quiescence" });
  let coalesced: u64 = world.borrow().puts_by_key.values().filter(|v| **v > 0).count() as u64;
  let _ = coalesced;
  let (states, started, resolved) = {
    let p = page.borrow();
    (p.states.clone(), p.started, p.resolved.clone())
  };
  out.trace.push(format!("close at macrotask {} inflight_txs={} started={} resolved={:?}", macro_i, inflight, started, resolved));
  page.borrow_mut().searchlite = None;
  let store = verif_idb::close_page(case.commit_inflight && inflight > 0);
  drop(page);
  verif_idb::uninstall();
  if !out.violations.is_empty() {
    return out;
  }
  // fingerprint: which version of which file survived
  let mut fp = String::new();
  if let Some(files) = store.get(DB) {
    for (k, v) in files {
      fp.push_str(&format!("{}:{};", k.rsplit('/').next().unwrap_or(k), hash_bytes(1, v) % 9973));
    }
  }
  stats.fingerprints.insert(hash_bytes(9, fp.as_bytes()));
  // ---- reload
  let world2 = Rc::new(RefCell::new(World::default()));
  world2.borrow_mut().store = store;
  verif_idb::install(world2.clone());
  let page2 = Rc::new(RefCell::new(PageState::default()));
  spawn_init(&page2);
  settle(stats);
  // a resolved commit must be fully present; a commit that had nothing to
  // commit (same state as its predecessor) demands nothing by itself
  let max_resolved = resolved
    .iter()
    .rev()
    .find(|i| states.get(**i).is_some() && states.get(**i) != states.get(**i - 1))
    .copied()
    .unwrap_or(0);
  let allowed: Vec<&Contents> = (max_resolved..=started).filter_map(|k| states.get(k)).collect();
  let describe = |cs: &[&Contents]| cs.iter().map(|c| format!("{:?}", short(c))).collect::<Vec<_>>().join(" | ");
  let s2 = page2.borrow().searchlite.clone();
  match s2 {
    None => {
      let errs = world2.borrow().errors.clone();
      out.violations.push(Violation::new(
        &["C27"],
        "reload-failed",
        "init",
        macro_i as usize,
        format!(
          "init after the reload failed: {:?}; closed at macrotask {} with {} transaction(s) open ({}); {} commit(s) started, resolved {:?}",
          errs,
          macro_i,
          inflight,
          if case.commit_inflight { "oldest one still commits" } else { "all aborted" },
          started,
          resolved
        ),
      ));
    }
    Some(s2) => match read_contents(&s2) {
      Err(e) => out.violations.push(Violation::new(&["C27"], "reload-failed", "search", macro_i as usize, e)),
      Ok(c) => {
        stats.inc("checks.reload");
        if !allowed.iter().any(|a| **a == c) {
          let class = if max_resolved > 0 && !states[max_resolved].iter().all(|(k, v)| c.get(k) == Some(v)) { "resolved-commit-lost" } else { "partial-commit" };
          out.violations.push(Violation::new(
            &["C27"],
            class,
            "reload",
            macro_i as usize,
            format!(
              "after the reload the index holds {:?}; commits started: {}, resolved: {:?}; allowed states: {}; trace: {}",
              short(&c),
              started,
              resolved,
              describe(&allowed),
              out.trace.join(" / ")
            ),
          ));
        } else {
          // ---- life goes on: one more add + awaited commit
          let id = "zz".to_string();
          if s2.verif_add(vec![doc(&id, 999_999)]).is_err() {
            out.violations.push(Violation::new(&["C27"], "call-failed", "add-after-reload", 0, format!("{:?}", world2.borrow().errors)));
          } else {
            page2.borrow_mut().states.push(Contents::new());
            spawn_commit(&page2, 1);
            settle(stats);
            if !page2.borrow().resolved.contains(&1) {
              out.violations.push(Violation::new(
                &["C27"],
                "call-failed",
                "commit-after-reload",
                0,
                format!("commit after the reload did not resolve: {:?} {:?}", page2.borrow().failed, world2.borrow().errors),
              ));
            } else {
              match read_contents(&s2) {
                Ok(c2) => {
                  let must = &states[max_resolved];
                  let ok = c2.contains_key("zz") && must.iter().all(|(k, v)| c2.get(k) == Some(v)) && c2.keys().all(|k| k == "zz" || all_added.contains(k));
                  if !ok {
                    out.violations.push(Violation::new(
                      &["C27"],
                      "resolved-commit-lost",
                      "after-reload-commit",
                      0,
                      format!("after reload + add + commit the index holds {:?}; resolved commits held {:?}", short(&c2), short(must)),
                    ));
                  }
                  stats.inc("checks.after_reload_commit");
                }
                Err(e) => out.violations.push(Violation::new(&["C27"], "reload-failed", "search-after-commit", 0, e)),
              }
            }
          }
        }
      }
    },
  }
  let puts = world.borrow().puts_by_key.values().sum::<u64>();
  stats.add("probe.idb_puts", puts);
  stats.add("probe.tasks_polled", world.borrow().polls);
  page2.borrow_mut().searchlite = None;
  verif_idb::close_page(false);
  drop(page2);
  verif_idb::uninstall();
  stats.inc("evaluations");
  out
}

struct IdbEngine;

impl Engine for IdbEngine {
  type Case = IdbCase;
  fn name(&self) -> &'static str {
    "e4.idb"
  }
  fn level(&self) -> &'static str {
    "exploration"
  }
  fn generate(&self, rng: &mut Rng, thorough: bool) -> IdbCase {
    gen_case(rng, thorough)
  }
  fn execute(&self, case: &IdbCase, _wroot: &Path, stats: &mut Stats) -> (Vec<Violation>, Vec<String>) {
    match catch_unwind(AssertUnwindSafe(|| run_case(case, stats))) {
      Ok(r) => (r.violations, r.trace),
      Err(p) => {
        verif_idb::uninstall();
        (vec![Violation::new(&["C27"], "panic", "run", 0, sim::work::panic_msg(p))], Vec::new())
      }
    }
  }
  fn shrink(&self, case: &IdbCase) -> Vec<IdbCase> {
    let mut out = Vec::new();
    for i in (0..case.steps.len()).rev() {
      let mut c = case.clone();
      c.steps.remove(i);
      out.push(c);
    }
    for i in 0..case.steps.len() {
      match &case.steps[i] {
        PageStep::Add { n, blank } if *n > 1 => {
          let mut c = case.clone();
          c.steps[i] = PageStep::Add { n: 1, blank: *blank };
          out.push(c);
        }
        PageStep::Commit { wait: false } => {
          let mut c = case.clone();
          c.steps[i] = PageStep::Commit { wait: true };
          out.push(c);
        }
        _ => {}
      }
    }
    if case.close_at != u32::MAX && case.close_at > 0 {
      for d in [case.close_at / 2, case.close_at - 1] {
        let mut c = case.clone();
        c.close_at = d;
        out.push(c);
      }
    }
    if case.choices.len() > 1 {
      let mut c = case.clone();
      c.choices = vec![1];
      out.push(c);
      let mut c = case.clone();
      c.choices = vec![0];
      out.push(c);
      let mut c = case.clone();
      c.choices.truncate(case.choices.len() / 2);
      out.push(c);
    }
    out
  }
  fn shrink_match(&self, a: &Violation, b: &Violation) -> bool {
    a.class == b.class
  }
  fn sample(&self, case: &IdbCase) -> Value {
    json!({"page_script": case.steps, "macrotask_choices": case.choices, "close_before_macrotask": case.close_at, "inflight_transaction_commits": case.commit_inflight})
  }
  fn rule(&self) -> String {
    "seeded page scripts (1-5 commits of 1-3 adds each, awaited / fire-and-forget / mixed) on a simulated browser: microtask queue drained FIFO after every macrotask, IndexedDB read-write transactions complete one at a time in creation order; free choices: which macrotask comes next (page step vs. completion of the oldest transaction), the close point (before any macrotask) and whether the transaction in flight still commits; after the close a fresh page runs init on the surviving store; distinct = distinct surviving (file, content) vectors at the close".into()
  }
  fn assumptions(&self) -> Vec<String> {
    vec![
      "adversary R: spawned tasks run in FIFO wake order and are drained after every macrotask (wasm-bindgen-futures); read-write transactions on the one object store complete in creation order (IndexedDB specification); arbitrary task/transaction orders are exploration only".into(),
      "the page closes only between macrotasks; the transaction in flight either commits or aborts, later ones never start".into(),
      "documents of different commits use distinct ids and scripts contain no deletes".into(),
    ]
  }
  fn real_vs_stub(&self) -> Value {
    json!({
      "real": "searchlite-wasm/src/wasm.rs compiled natively: PendingWrites::{schedule, schedule_delete, flush}, persist_queue, JsStorage, JsFile, Searchlite::{init/create, commit, add_documents_internal}, and all of searchlite-core (feature browser) underneath",
      "simulated": "IndexedDB (persist_file / delete_file / load_snapshot twins), the browser task queue (spawn_local twin), console logging, JS<->Rust value conversion (add_document(JsValue), search result encoding)",
    })
  }
  fn budget(&self, thorough: bool) -> (u64, f64) {
    if thorough {
      (5_000_000, 600.0)
    } else {
      (300_000, 30.0)
    }
  }
  fn probes(&self) -> Vec<&'static str> {
    vec![
      "fault.page_close_mid_run",
      "fault.close_inflight_tx_commits",
      "fault.close_inflight_tx_aborts",
      "probe.unawaited_commit",
      "checks.reload",
      "checks.after_reload_commit",
    ]
  }
}

fn main() {
  std::panic::set_hook(Box::new(|_| {}));
  let args = parse_args();
  let code = match (args.mode.as_str(), args.property.as_str()) {
    ("idb", "C27") => drive(&IdbEngine, &args),
    ("dump", _) => {
      let i: u64 = args.rest.first().and_then(|s| s.parse().ok()).unwrap_or(0);
      let mut rng = Rng::new(sim::rng::derive(args.seed, "e4.idb", i));
      let case = gen_case(&mut rng, false);
      let mut st = Stats::default();
      let (vs, trace) = IdbEngine.execute(&case, Path::new("/sim/w00"), &mut st);
      for t in trace {
        println!("{}", t);
      }
      for v in vs {
        println!("V {} {} {}", v.class, v.site, v.detail);
      }
      0
    }
    (m, p) => {
      eprintln!("harness error: e4idb does not decide mode={} property={}", m, p);
      2
    }
  };
  std::process::exit(code);
}
