#!/usr/bin/env python3
"""Writes /verif/MANIFEST.json from the table below (single source of truth)."""
import json, os, subprocess
HERE = os.path.dirname(os.path.abspath(__file__))

NA = {
 "C07": "match set is a pure function of (corpus, query tree); segment layout is an input, not nondeterminism - nothing to schedule, crash or fault",
 "C08": "filter evaluation is a pure function of (document, filter tree)",
 "C09": "wand/bmw vs bm25 equality is a deterministic algorithm comparison over inputs",
 "C10": "ordering and BM25 scores are pure functions of (snapshot, request)",
 "C11": "pagination runs on an immutable reader snapshot; the stale-cursor case is a deterministic generation comparison with no interleaving to explore",
 "C12": "aggregation results are pure functions of (matched documents, aggregation tree)",
 "C13": "paging-independence of aggregations is an input-space metamorphic relation",
 "C15": "agreement between add-time and commit-time validation is a relation between two pure functions of (schema, document)",
 "C16": "panic-freedom over request inputs; no fault, clock or schedule involved",
 "C18": "collapse grouping is a pure post-processing of ranked hits",
 "C19": "rescoring is a pure post-processing of ranked hits",
 "C20": "explain/profile invariance is an input-space metamorphic relation",
 "C21": "highlight well-formedness is a pure function of (text, query, sizes)",
 "C22": "completion suggestions are a pure function of (term dictionaries, request)",
 "C25": "each front end is a deterministic function of its inputs; agreement is differential testing, not simulation",
 "C26": "buffer-bound behaviour is a pure function of the call arguments; its oracle is memory safety, not a fault or schedule",
 "C29": "vector scoring/filtering is a pure function of inputs (and needs a non-default feature)",
 "C30": "composite paging is a pure function of (matched documents, sources, after key)",
}

# property -> (mode, level, technique, text, note, design_ref)
CHECKS = {
 "C01": ("crash", "fault_enumeration",
   "deterministic simulation: crash-point enumeration over a simulated journalled file system",
   "Every FS-primitive boundary of seeded histories is crashed; for each boundary the only-durable, all-persisted, every single-deviation, torn/zero-filled and PRNG-mixed images allowed by durability model M1 are mounted and reopened with the real code; contents must be the acknowledged state or the in-flight commit's complete result. Enumeration is complete per history over the structured image classes, histories are sampled.",
   "Trusts SimFs' live semantics (differential self-test against a real directory) and model M1 (ordered metadata journal). Strict-POSIX directory reordering is not assumed.", "3 C01, 2.3"),
 "C02": ("crash", "fault_enumeration",
   "deterministic simulation: multi-crash histories with torn/dropped/kept log tails, recovery vs. reference model",
   "Up to four sessions (adds, deletes, commits, rollbacks, savepoint/rollback_to, compaction) separated by pinned crashes (log tail dropped, kept or torn at a chosen byte), the last session swept at every primitive boundary with every cut of the last un-synced log write; after each image a writer is opened, a probe add + commit is made, and add index + contents must equal the crash-free result for exactly the operations whose records reached the image (known from which API call wrote which byte, not from parsing).",
   "Same trusted base as C01; one live writer handle at a time.", "3 C02"),
 "C03": ("fault", "fault_enumeration",
   "deterministic simulation: fault-plan enumeration over the primitives of the simulated file system",
   "The target call's FS primitives are counted in a fault-free execution, then the whole history is re-executed once per (primitive, kind) with kind in {EIO before effect, EIO after effect, ENOSPC partial write + sticky}; quick adds sampled pairs, thorough every ordered pair with the second fault placed in the faulted execution (error paths included). Oracle: Err leaves new-reader and from-disk contents at the pre-state and the retry succeeds at the first attempt; Ok applies fully; the queue survives (checked with and without a restart); double faults / full-disk sequences: the on-disk index opens, names no missing file and shows pre- or post-state.",
   "Faults are clean (error returned, effect absent or complete, ENOSPC applies a prefix); faults stop when the target call returns.", "3 C03"),
 "C04": ("model", "exploration",
   "deterministic simulation (fault-free configuration) against an executable reference model",
   "Seeded fault-free histories (1-3 writer handles, kept readers, reopen, compaction, savepoint/rollback_to, delete_documents with several ids, long documents, large id spaces, purge-compact-refill) over four schema profiles on FsStorage+SimFs and InMemoryStorage are executed on the real core and on the reference model; after every call a fresh reader must show exactly the model's committed state with the independently computed stored projection, add_document must return the model's value, kept readers must keep their snapshot.",
   "The reference model of DESIGN 2.4 is the intended semantics; overlapping handles judged on FsStorage only.", "3 C04"),
 "C05": ("sched", "exploration",
   "deterministic simulation: seeded thread schedules under an owned (baton) scheduler + linearizability check",
   "2-4 writer threads with their own handles (+ optional compactor and reader; one case in eight is the scenario purge - compaction - refill - stale handle) run as real OS threads of which exactly one runs at a time; the scheduler decides at every lock acquire/release, every FS primitive and every call boundary (uniform, sticky and PCT-style policies); invoke/return events carry global sequence numbers and a Wing-Gong search looks for a serial order in which the reference model returns every observed result and ends in the observed final contents (live and reopened from disk); no call may fail, panic or deadlock.",
   "Code between yield points is atomic (threads interact only through the two index locks and the file system); schedules are sampled, not enumerated.", "3 C05, 2.5"),
 "C06": ("sched", "exploration",
   "deterministic simulation: seeded thread schedules under an owned (baton) scheduler + linearizability check",
   "Reader-heavy programs (open, search, search again, reopen) against committing writers and a compactor under the same scheduler; reader() and search never fail, each reader's first result equals the committed state at some point between its open's invocation and return (it takes part in the linearizability search), and every later search on the same reader returns the same result whatever was committed, compacted or unlinked since.",
   "Same as C05; SimFs keeps unlinked inodes readable through open handles as POSIX does; a quarter of the cases run on InMemoryStorage with one writer thread.", "3 C06, 2.5"),
 "C14": ("model", "exploration",
   "deterministic simulation (fault-free configuration) with before/after compaction differential",
   "Histories ending in (and containing) compactions; around every compaction the full stored contents and the hit sets of a probe battery (term, phrase, prefix, query_string, keyword/range filters, nested filters incl. Not inside Nested and nested-in-nested) are compared before/after; one segment afterwards; the unsafe schema profile must be refused with files, manifest and results unchanged.",
   "Input corner cases (null/empty/multi-valued) come from the document generator only; simulation contributes the history dimension.", "3 C14"),
 "C17": ("corrupt", "fault_enumeration",
   "deterministic simulation: media-fault enumeration on the simulated disk between sessions",
   "Small generated indexes (1-3 segments, deletions, non-empty log) are closed, then every file is altered - single-byte xor with masks 01/02/10/80/FF at every offset and every truncation length in the thorough tier, a PRNG sample per file in the quick tier - and reopened with the real code: open+reader+match_all+probe battery must fail or return exactly the uncorrupted results; for wal.log a new writer may recover only a prefix of the queue; never a panic.",
   "One media fault at a time; dead bytes (no observable change) are not violations.", "3 C17"),
 "C23": ("http", "exploration",
   "deterministic simulation: request histories against the real router in-process, queue reference model",
   "Seeded histories of valid and invalid /add (NDJSON), /bulk, /delete, /commit, /refresh, /compact, /search, /stats requests are handed to the real axum Router as a tower Service (no socket) on a current-thread tokio runtime; a 2xx write appends its operations to the model queue, a rejected one appends nothing, a 2xx /commit folds the queue; after every commit /search match_all and /stats.documents must equal the model; bodies are split at arbitrary byte boundaries. A third of the cases end in a block of 2-6 concurrent requests driven by a seeded executor (blocking tasks parked at spawn, at outermost core lock boundaries and on a contended writer lock; one thread runs at a time; a client may go away): the block's responses plus a final commit/search must be linearizable on the queue model. A fifth of the sequential cases fail one storage primitive under a request: un-acknowledged writes/commits may or may not have taken effect (set of allowed model states), acknowledged ones must never be lost.",
   "hyper's connection layer is not exercised; index on tmpfs behind a pass-through VFS (single failing primitive, no crash); concurrent requests interleave at blocking-task granularity.", "3 C23, 2.6"),
 "C24": ("http", "exploration",
   "deterministic simulation: request histories with transport faults under a simulated (paused) clock",
   "Same runs plus unknown paths/methods, wrong content types, malformed and mutated bodies, and transport faults: arbitrary chunk boundaries, a client that stalls forever (the simulated clock runs to the 30 s TimeoutLayer in microseconds), connection resets mid-body, bodies over the limit with and without Content-Length; searches with extreme numeric parameters; one storage primitive failing or panicking under a request; blocks of concurrent requests with stalled / reset / vanished clients. The engine runs in a child process: a request that kills the process is reported (server-down) with a minimised replay. Every request must resolve; 2xx bodies must have the documented shape, every non-2xx body must be {error:{type,reason}}; classes known by construction get their code (4xx invalid, 404 no index/unknown path, 405, 409 second init, 413 oversize, 504 stall); /healthz stays 200.",
   "Same as C23; the 'however malformed' input space is only sampled - simulation contributes the transport/time dimension and cross-request state.", "3 C24, 2.6"),
 "C27": ("idb", "exploration",
   "deterministic simulation: simulated browser event loop + IndexedDB under the real wasm persistence layer",
   "searchlite-wasm's wasm.rs is compiled natively (cfg twins for spawn_local, persist_file, delete_file, load_snapshot, JS error values) and driven by page scripts of 1-5 commits (awaited, fire-and-forget, mixed, with and without new documents); the simulator decides which macrotask comes next (page step vs. completion of the oldest IndexedDB transaction), drains the FIFO microtask queue in between, and closes the page before any macrotask with the in-flight transaction committed or aborted; a fresh page then runs init on the surviving store: it must open, hold exactly the documents of a prefix of the started commits that includes every resolved non-empty commit, and a further add+commit must keep them.",
   "Adversary R (FIFO tasks, transactions complete in creation order - what wasm-bindgen-futures and the IndexedDB specification give); arbitrary orders are exploration only (VERIF_IDB_LOOSE), see DESIGN.", "3 C27, 2.6"),
 "C28": ("model", "exploration",
   "deterministic simulation with a path monitor on the file-system seam",
   "Relocate is a generated operation: the index directory is copied inside SimFs (new root unrelated, a textual prefix or an extension of the old name), the original kept / emptied / removed, the copy opened - with Index::open or through Index::open_with_storage and a storage object created for the original root - and the history continues (search, add, commit, compaction); contents must equal the model, no FS primitive may touch a path outside the new root, the original's files must stay byte-identical.",
   "The copy is taken while no handle is open (as a backup tool would).", "3 C28"),
}

def main():
    checks = []
    for pid, (mode, level, tech, text, note, ref) in sorted(CHECKS.items()):
        checks.append({
            "property_id": pid,
            "quick_cmd": f"./check {mode} --property {pid} --tier quick",
            "thorough_cmd": f"./check {mode} --property {pid} --tier thorough",
            "evidence_file": f"/verif/evidence/{pid}.json",
            "replay_cmd_template": f"./check {mode} --property {pid} --replay {{path}}",
            "engine": {"crash": "E1", "model": "E1", "fault": "E1", "corrupt": "E1", "sched": "E2", "http": "E3", "idb": "E4"}[mode],
            "level_claimed": {"category": level, "text": text, "design_ref": "DESIGN.md section " + ref},
            "level_note": note,
            "technique": tech,
        })
    na = [{"property_id": k, "reason": v} for k, v in sorted(NA.items())]
    pending = {

      
    }
    for k, v in sorted(pending.items()):
        if k not in CHECKS:
            na.append({"property_id": k, "reason": f"not claimed at this commit: its check ({v}) is not built yet; the property IS a simulation target (DESIGN.md section 3)"})
    hooks = subprocess.run(["git", "-C", "/repo", "log", "--format=%h %s", "--grep", "^verif hook"], capture_output=True, text=True).stdout.strip().splitlines()
    m = {
      "version": 1,
      "setup_cmd": "cd /verif/sim && CARGO_NET_OFFLINE=true cargo build --release --offline --workspace && CARGO_NET_OFFLINE=true CARGO_TARGET_DIR=/verif/sim/target-zstd cargo build --release --offline -p sim --features zstd",
      "hooks": {
        "guard": "--cfg searchlite_verif",
        "enable": "RUSTFLAGS=\"--cfg searchlite_verif\" (set in /verif/sim/.cargo/config.toml; the simulator crates depend on /repo/searchlite-* by path, so every check rebuilds from /repo's working tree)",
        "baseline_off_cmd": "cd /repo && cargo test --workspace --no-fail-fast --offline",
        "source_commits": [h.split()[0] for h in hooks],
        "add_only": True,
      },
      "engines": [
        {"name": "E1", "path": "/verif/sim/src/{simfs,crash,model,work,e1_*}.rs", "serves_properties": ["C01","C02","C03","C04","C14","C17","C28"], "kind_free_text": "single-threaded deterministic simulation of searchlite-core on a simulated disk (SimFs) with crash-image enumeration, fault plans, media faults, path monitor and reference model"},
        {"name": "E2", "path": "/verif/sim/src/{sched,e2}.rs", "serves_properties": ["C05","C06"], "kind_free_text": "real threads under a seeded baton scheduler (one runs at a time; yield points at lock hooks, FS primitives, call boundaries) + Wing-Gong linearizability check against the reference model"},
        {"name": "E3", "path": "/verif/sim/e3http/src/{main,conc,passfs}.rs", "serves_properties": ["C23","C24"], "kind_free_text": "the real axum router driven in-process as a tower Service on a current-thread tokio runtime with paused clock, in a supervised child process; simulated clients with chunking, stalls, resets, oversize bodies and disconnects; blocks of concurrent requests under a seeded executor with blocking tasks released one at a time; storage faults through a pass-through VFS; queue model (linearizability, allowed-state sets) + response-shape oracle"},
        {"name": "E4", "path": "/verif/sim/e4idb/src/{main,verif_idb}.rs", "serves_properties": ["C27"], "kind_free_text": "searchlite-wasm's wasm.rs compiled natively on a simulated single-threaded browser host: FIFO microtask queue, IndexedDB with ordered transactions, page scripts, page close at any macrotask boundary"},
      ],
      "checks": checks,
      "not_applicable": sorted(na, key=lambda x: x["property_id"]),
      "notes": "All checks: exit 0 held, exit 1 with a VIOLATION line, exit 2 harness error. Default seed fixed (VERIF_SEED=1). known_findings.json lists open (KNOWN-FINDING) and fixed defects; fixed entries' replays are re-run on every check.",
    }
    with open(os.path.join(HERE, "MANIFEST.json"), "w") as f:
        json.dump(m, f, indent=1)
        f.write("\n")

if __name__ == "__main__":
    main()
